#!/usr/bin/env python3
"""tools/mutsweep.py [--jobs 4] [--only ID,...]: run every hand mutation of tools/mutations.json against the quick checks it
names (on scratch copies of /repo, via tools/mutcheck.py) and write seeded/mutation_sweep.json."""
import argparse, json, os, subprocess, sys, time
from concurrent.futures import ThreadPoolExecutor
HERE = os.path.dirname(os.path.abspath(__file__))
ap = argparse.ArgumentParser(); ap.add_argument("--jobs", type=int, default=4); ap.add_argument("--only", default="")
a = ap.parse_args()
muts = json.load(open(os.path.join(HERE, "mutations.json")))
if a.only:
    muts = [m for m in muts if m["id"] in a.only.split(",")]

def run(m):
    src = open(os.path.join("/repo/src/pygom", m["file"])).read()
    cnt = m.get("count", 1)
    if cnt == -1:
        cnt = src.count(m["old"])
    cmd = [sys.executable, os.path.join(HERE, "mutcheck.py"), m["props"], m["file"], m["old"], m["new"], "--count", str(cnt)]
    t0 = time.time()
    r = subprocess.run(cmd, stdout=subprocess.PIPE, stderr=subprocess.STDOUT, text=True)
    res = {}
    for line in r.stdout.splitlines():
        for p in m["props"].split(","):
            if line.startswith(p + " quick:"):
                res[p] = line.split(":")[1].split("(")[0].strip()
    finds = [l.strip()[:220] for l in r.stdout.splitlines() if l.strip().startswith("finding")]
    if not res:
        res = {"error": r.stdout[-400:]}
    return dict(id=m["id"], what=m["what"], file=m["file"], results=res, findings=finds[:3], wall_s=round(time.time() - t0))

with ThreadPoolExecutor(a.jobs) as ex:
    out = list(ex.map(run, muts))
path = os.path.join(os.path.dirname(HERE), "seeded", "mutation_sweep.json")
prev = {}
if a.only and os.path.exists(path):
    prev = {e["id"]: e for e in json.load(open(path))["mutations"]}
for e in out:
    prev[e["id"]] = e
allm = [prev[m["id"]] for m in json.load(open(os.path.join(HERE, "mutations.json"))) if m["id"] in prev]
json.dump({"note": "hand mutations of /repo (scratch copies), quick tier, VERIF_SEED=1; CAUGHT = exit 1 with a VIOLATION line",
           "mutations": allm}, open(path, "w"), indent=1)
for e in out:
    print(e["id"], e["results"], e["findings"][:1])
