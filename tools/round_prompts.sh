E21="a limit or early exit: an iteration cap, a step limit, a break / continue condition, the guard of a while loop, a maximum number of attempts, a tolerance that ends a loop"
E22="copy and paste between sibling functions: something fixed or changed in one twin but not the other (the IV and non-IV variants, the _T wrappers, the exact and tau-leap paths, the d / p / q / r family of one distribution, Square versus Normal), or arguments swapped between twins"
E23="units and scales: log versus log10, natural versus logarithmic scale, rate versus scale, variance versus standard deviation, a weight versus its square, per-capita versus total, radians versus periods"
E24="type dispatch: isinstance chains (Number versus np.number versus bool, list versus tuple versus ndarray, str versus sympy Symbol), hasattr checks, a legitimate but unexpected type going through the wrong branch"
mk() { /verif/tools/mkwt.sh "$1" "$2" "$3"; }
A() { python3 - "$1" <<'PY'
import json,glob,os,sys
out=[]
for d in sorted(glob.glob('/verif/seeded/%s-*' % sys.argv[1])):
    try: m=json.load(open(d+'/meta.json'))
    except Exception: continue
    s=m.get('summary','').replace('\n',' ')
    out.append(s[:170].rsplit(' ',1)[0])
print('; '.join(out))
PY
}
case "$1" in
C01|C05|C09|C13|C17) mk $1 "$E21" "$(A $1)";;
C02|C06|C10|C14|C18) mk $1 "$E22" "$(A $1)";;
C03|C07|C11|C15|C19) mk $1 "$E23" "$(A $1)";;
C04|C08|C12|C16|C20) mk $1 "$E24" "$(A $1)";;
esac
