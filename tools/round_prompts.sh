E21="what is stored versus what is handed out: a getter or property that returns internal mutable state (a list, dict or array the caller may change), an argument stored by reference and changed later by the caller, a returned array that is a view of internal storage"
E22="order of initialisation and lazy attributes: something computed on first use and never refreshed, a hasattr / None guard, an attribute set in one method and read in another that may run first, the order of statements in __init__"
E23="string handling: a regular expression, splitting a declaration on commas or whitespace, prefix tests (startswith, in), str.replace on equation strings, numbers that go through str() or repr() and lose digits, names that contain other names"
E24="array indexing and linear algebra: np.ix_ and fancy indexing versus slices (copies versus views), summing over the wrong axis, dot versus elementwise product, filling one triangle of a symmetric matrix, reshape followed by indexing"
mk() { /verif/tools/mkwt.sh "$1" "$2" "$3"; }
A() { python3 - "$1" <<'PY'
import json,glob,os,sys
out=[]
for d in sorted(glob.glob('/verif/seeded/%s-*' % sys.argv[1])):
    try: m=json.load(open(d+'/meta.json'))
    except Exception: continue
    s=m.get('summary','').replace('\n',' ')
    out.append(s[:170].rsplit(' ',1)[0])
print('; '.join(out))
PY
}
case "$1" in
C01|C05|C09|C13|C17) mk $1 "$E21" "$(A $1)";;
C02|C06|C10|C14|C18) mk $1 "$E22" "$(A $1)";;
C03|C07|C11|C15|C19) mk $1 "$E23" "$(A $1)";;
C04|C08|C12|C16|C20) mk $1 "$E24" "$(A $1)";;
esac
