E21="a promise made in a docstring or in the docs (a default value, the order of returned values, units, which argument wins when two are given) that the code stops keeping in a corner"
E22="NumPy vectorisation and broadcasting: shape (n,) versus (n,1), an axis argument, keepdims, reshape order (C versus F), a transpose, np.squeeze / np.atleast_2d on one-element inputs"
E23="Python language pitfalls: a mutable default argument, late binding of a loop variable in a closure, is versus ==, integer division, a chained comparison, the truth value of 0 / an empty container / an array, a bare except that swallows an error"
E24="the interaction with sympy: simplification (simplify, cancel, together, expand), assumptions (real, positive), simultaneous versus sequential substitution, symbol names that clash with sympy objects (beta, gamma, S, N, E, I, Q, lambda), the modules argument of lambdify"
mk() { /verif/tools/mkwt.sh "$1" "$2" "$3"; }
A() { python3 - "$1" <<'PY'
import json,glob,os,sys
out=[]
for d in sorted(glob.glob('/verif/seeded/%s-*' % sys.argv[1])):
    try: m=json.load(open(d+'/meta.json'))
    except Exception: continue
    s=m.get('summary','').replace('\n',' ')
    out.append(s[:170].rsplit(' ',1)[0])
print('; '.join(out))
PY
}
case "$1" in
C01|C05|C09|C13|C17) mk $1 "$E21" "$(A $1)";;
C02|C06|C10|C14|C18) mk $1 "$E22" "$(A $1)";;
C03|C07|C11|C15|C19) mk $1 "$E23" "$(A $1)";;
C04|C08|C12|C16|C20) mk $1 "$E24" "$(A $1)";;
esac
