#!/bin/sh
# tools/thorough_all.sh [seed]: every thorough command once, sequentially (each uses all cores); summary in thorough_out/summary.txt
s=${1:-1}
out=${VERIF_MS_OUT:-thorough_out}
mkdir -p "$out"; : > "$out/summary.txt"
case "$out" in /*) abs="$out";; *) abs="$PWD/$out";; esac
export VERIF_EVIDENCE_DIR="$abs/evidence" VERIF_REPLAY_DIR="$abs/replays"
for id in C01 C02 C03 C04 C05 C06 C07 C08 C09 C10 C11 C12 C13 C14 C15 C16 C17 C18 C19 C20; do
  st=$(date +%s); VERIF_SEED=$s ./check $id thorough > "$out/$id.log" 2>&1; echo "$id seed=$s exit=$? $(( $(date +%s)-st ))s" >> "$out/summary.txt"
done
cat "$out/summary.txt"
if grep -qv "exit=0" "$out/summary.txt"; then exit 1; fi
