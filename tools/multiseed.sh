#!/bin/sh
# tools/multiseed.sh <tier> <seeds...> -- ids...   : run checks at several seeds, 4 lanes; prints a summary (exit 1 if any non-zero)
tier=$1; shift
seeds=""
while [ "$1" != "--" ]; do seeds="$seeds $1"; shift; done
shift
out=${VERIF_MS_OUT:-multiseed_out}
mkdir -p "$out"
: > "$out/summary.txt"
case "$out" in /*) abs="$out";; *) abs="$PWD/$out";; esac
export VERIF_EVIDENCE_DIR="$abs/evidence" VERIF_REPLAY_DIR="$abs/replays"
n=0
for s in $seeds; do
  for id in "$@"; do
    ( st=$(date +%s); VERIF_SEED=$s ./check $id $tier > "$out/$id.$s.log" 2>&1; echo "$id seed=$s exit=$? $(( $(date +%s)-st ))s" >> "$out/summary.txt" ) &
    n=$((n+1))
    if [ $((n % 4)) -eq 0 ]; then wait; fi
  done
done
wait
sort "$out/summary.txt"
if grep -qv "exit=0" "$out/summary.txt"; then exit 1; fi
