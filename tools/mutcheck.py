#!/usr/bin/env python3
"""Sensitivity protocol helper (DESIGN section 5).

  tools/mutcheck.py <PROP[,PROP..]> <file-relative-to-src/pygom> <old> <new> [--tier quick] [--patch file.diff]

Copies /repo to a scratch directory outside /repo and /verif, applies one textual mutation (or a
patch), runs the named checks against the copy (VERIF_REPO), reports exit codes and removes the copy.
Replays produced by mutated runs go to a scratch directory, never to /verif/replays.
"""
import argparse
import os
import shutil
import subprocess
import sys
import tempfile
import time

ap = argparse.ArgumentParser()
ap.add_argument("props")
ap.add_argument("file", nargs="?")
ap.add_argument("old", nargs="?")
ap.add_argument("new", nargs="?")
ap.add_argument("--tier", default="quick")
ap.add_argument("--patch")
ap.add_argument("--count", type=int, default=1)
ap.add_argument("--seed", default="1")
ap.add_argument("--scale", default=None)
ap.add_argument("--keep-replays", default=None)
a = ap.parse_args()

scratch = tempfile.mkdtemp(prefix="pygom_mut_", dir="/var/tmp")
try:
    dst = os.path.join(scratch, "repo")
    shutil.copytree("/repo", dst, ignore=shutil.ignore_patterns(".git", "docs", "notebooks"))
    if a.patch:
        r = subprocess.run(["patch", "-p1", "-s", "-i", os.path.abspath(a.patch)], cwd=dst)
        if r.returncode:
            sys.exit("patch failed")
    else:
        p = os.path.join(dst, "src", "pygom", a.file)
        s = open(p).read()
        if s.count(a.old) != a.count:
            sys.exit("expected %d occurrence(s) of the old text, found %d" % (a.count, s.count(a.old)))
        open(p, "w").write(s.replace(a.old, a.new))
    rdir = a.keep_replays or os.path.join(scratch, "replays")
    env = dict(os.environ, VERIF_REPO=dst, VERIF_REPLAY_DIR=rdir, VERIF_EVIDENCE_DIR=os.path.join(scratch, "evidence"),
               VERIF_SEED=a.seed)
    if a.scale:
        env["VERIF_SCALE"] = a.scale
    for prop in a.props.split(","):
        t0 = time.time()
        r = subprocess.run(["/verif/check", prop, a.tier], env=env, stdout=subprocess.PIPE,
                           stderr=subprocess.STDOUT, text=True)
        lines = [l for l in r.stdout.splitlines() if l.startswith(("VIOLATION", "    finding", "HARNESS", "["))]
        verdict = {0: "MISSED", 1: "CAUGHT", 2: "HARNESS-ERROR"}.get(r.returncode, "exit %d" % r.returncode)
        print("%s %s: %s (%.0fs)" % (prop, a.tier, verdict, time.time() - t0))
        for l in lines[:8]:
            print("   ", l[:300])
        if r.returncode == 2:
            print(r.stdout[-3000:])
finally:
    shutil.rmtree(scratch, ignore_errors=True)
