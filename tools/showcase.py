"""Pretty-print a replay file with IR expressions rendered as strings: /venv/bin/python tools/showcase.py <file>"""
import json, sys, os
sys.path.insert(0, os.path.dirname(os.path.dirname(os.path.abspath(__file__))))
from pbt import ir

def model(m):
    return dict(states=ir.state_names(m), params=m['params'], derived=[(d['name'], ir.to_str(d['expr'])) for d in m.get('derived', [])],
                events=[(ir.to_str(e['rate']), [(t['kind'], t['o'], t['d'], ir.mag_str(t['mag'])) for t in e['trans']]) for e in m.get('events', [])],
                odes=[(o['state'], ir.to_str(o['expr'])) for o in m.get('odes', [])])

def walk(o):
    if isinstance(o, dict):
        if 'state_decl' in o:
            return model(o)
        if 'rate' in o and 'trans' in o:
            return (ir.to_str(o['rate']), [(t['kind'], t['o'], t['d'], ir.mag_str(t['mag'])) for t in o['trans']])
        return {k: (ir.to_str(v) if k == 'expr' else walk(v)) for k, v in o.items()}
    if isinstance(o, list):
        return [walk(v) for v in o]
    return o

for f in sys.argv[1:]:
    b = json.load(open(f))
    print(b.get('finding_key'), '::', b.get('message'))
    c = b['case']
    if 'ops' in c:
        for op in c['ops']:
            print('  ', json.dumps(walk(op)))
    else:
        print(json.dumps(walk(c), indent=1))
