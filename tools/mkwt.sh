#!/bin/sh
# tools/mkwt.sh <ID>: scratch git worktree of /repo HEAD under /tmp for a mutation sub-agent
ID="$1"
WT="/tmp/wt_$ID"
git -C /repo worktree remove --force "$WT" 2>/dev/null
rm -rf "$WT"
git -C /repo worktree add --detach "$WT" HEAD >/dev/null 2>&1 || exit 1
cp /repo/src/pygom/model/_tau_leap.cpython-312-x86_64-linux-gnu.so "$WT/src/pygom/model/" || exit 1
python3 - "$ID" > "$WT/PROPERTY.json" <<'PY'
import json,sys
for l in open('/verif/properties.jsonl'):
    d=json.loads(l)
    if d['id']==sys.argv[1]:
        print(json.dumps(d,indent=1))
PY
EMPH="${2:-}"
AVOID="${3:-}"
python3 - "$ID" "$EMPH" "$AVOID" > "$WT/TASK.md" <<'PY'
import sys
t=open('/verif/tools/seed_prompt.txt').read().replace('__ID__',sys.argv[1])
e=sys.argv[2]
a=sys.argv[3]
txt=('For this round, prefer a change whose trigger is of this kind: %s. (If that is impossible for this property, any kind of trigger that satisfies (3) is fine.)\n\n' % e) if e else ''
if a:
    txt += 'These mechanisms have been studied already - choose a different code site or a different mechanism: %s.\n\n' % a
t=t.replace('__EMPHASIS__\n\n', txt)
sys.stdout.write(t)
PY
echo "$WT"
