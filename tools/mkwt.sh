#!/bin/sh
# tools/mkwt.sh <ID>: scratch git worktree of /repo HEAD under /tmp for a mutation sub-agent
ID="$1"
WT="/tmp/wt_$ID"
git -C /repo worktree remove --force "$WT" 2>/dev/null
rm -rf "$WT"
git -C /repo worktree add --detach "$WT" HEAD >/dev/null 2>&1 || exit 1
cp /repo/src/pygom/model/_tau_leap.cpython-312-x86_64-linux-gnu.so "$WT/src/pygom/model/" || exit 1
python3 - "$ID" > "$WT/PROPERTY.json" <<'PY'
import json,sys
for l in open('/verif/properties.jsonl'):
    d=json.loads(l)
    if d['id']==sys.argv[1]:
        print(json.dumps(d,indent=1))
PY
sed "s/__ID__/$ID/g" /verif/tools/seed_prompt.txt > "$WT/TASK.md"
echo "$WT"
