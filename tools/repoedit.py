#!/usr/bin/env python3
"""tools/repoedit.py <file under /repo> <old> <new>: exact single replacement preserving the file's line endings."""
import sys
path, old, new = sys.argv[1], sys.argv[2], sys.argv[3]
b = open(path, "rb").read()
crlf = b"\r\n" in b
o, n = old.encode(), new.encode()
if crlf:
    o = o.replace(b"\r\n", b"\n").replace(b"\n", b"\r\n")
    n = n.replace(b"\r\n", b"\n").replace(b"\n", b"\r\n")
if b.count(o) != 1:
    sys.exit("expected exactly one occurrence, found %d" % b.count(o))
open(path, "wb").write(b.replace(o, n))
