#!/usr/bin/env python3
"""tools/seedsweep.py [--jobs 5]: re-run every kept seeded change (seeded/<id>-<round>/) against the current quick checks it was
caught by (tools/seedcheck.py --no-tests, scratch copies of /repo) and write seeded/seed_sweep.json."""
import argparse, glob, json, os, subprocess, sys, time
from concurrent.futures import ThreadPoolExecutor
HERE = os.path.dirname(os.path.abspath(__file__))
ROOT = os.path.dirname(HERE)
ap = argparse.ArgumentParser(); ap.add_argument("--jobs", type=int, default=5)
a = ap.parse_args()
dirs = sorted(d for d in glob.glob(os.path.join(ROOT, "seeded", "C*-*")) if os.path.exists(os.path.join(d, "patch.diff")))

def run(d):
    name = os.path.basename(d)
    meta = json.load(open(os.path.join(d, "meta.json")))
    checks = meta.get("confirmed", {}).get("our_checks", {})
    caught = [k for k, v in checks.items() if v.get("verdict") == "caught"] or list(checks) or [name[:3]]
    t0 = time.time()
    subprocess.run([sys.executable, os.path.join(HERE, "seedcheck.py"), name, d, ",".join(caught), "--no-tests"],
                   stdout=subprocess.PIPE, stderr=subprocess.STDOUT)
    meta = json.load(open(os.path.join(d, "meta.json")))
    res = {k: v.get("verdict") for k, v in meta.get("confirmed", {}).get("our_checks", {}).items()}
    return {"change": name, "checks": res, "caught": any(v == "caught" for v in res.values()), "wall_s": round(time.time() - t0)}

with ThreadPoolExecutor(a.jobs) as ex:
    out = list(ex.map(run, dirs))
json.dump({"note": "every kept seeded change against the quick checks that caught it when it was confirmed (VERIF_SEED=1, scratch copies)",
           "n": len(out), "caught": sum(1 for o in out if o["caught"]), "results": out},
          open(os.path.join(ROOT, "seeded", "seed_sweep.json"), "w"), indent=1)
for o in out:
    if not o["caught"]:
        print("NOT CAUGHT", o)
print("%d of %d caught" % (sum(1 for o in out if o["caught"]), len(out)))
