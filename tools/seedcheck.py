#!/usr/bin/env python3
"""Confirm a sub-agent's seeded change and run our checks against it.

  tools/seedcheck.py <name> <worktree/_out dir> <PROP[,PROP...]> [--no-tests] [--tier quick]

Copies /repo to a scratch directory, applies patch.diff, runs demo.py against the changed and the unchanged
tree, runs the repository's test suite on the changed tree, runs the named checks with VERIF_REPO=<scratch>,
stores everything under /verif/seeded/<name>/ and removes the scratch copy.
"""
import argparse
import json
import os
import re
import shutil
import subprocess
import sys
import tempfile
import time

ap = argparse.ArgumentParser()
ap.add_argument("name")
ap.add_argument("outdir")
ap.add_argument("props")
ap.add_argument("--no-tests", action="store_true")
ap.add_argument("--tier", default="quick")
a = ap.parse_args()

dst_dir = os.path.join("/verif/seeded", a.name)
os.makedirs(dst_dir, exist_ok=True)
for fn in ("patch.diff", "demo.py", "meta.json"):
    src = os.path.join(a.outdir, fn)
    if os.path.exists(src) and os.path.abspath(src) != os.path.abspath(os.path.join(dst_dir, fn)):
        shutil.copy(src, os.path.join(dst_dir, fn))
meta_path = os.path.join(dst_dir, "meta.json")
try:
    meta = json.load(open(meta_path))
except Exception:
    meta = {}
scratch = tempfile.mkdtemp(prefix="pygom_seed_", dir="/var/tmp")
res = {}
try:
    dst = os.path.join(scratch, "repo")
    subprocess.run(["git", "-C", "/repo", "worktree", "add", "--detach", dst, "HEAD"], check=True,
                   stdout=subprocess.DEVNULL, stderr=subprocess.DEVNULL)
    import glob
    for so in glob.glob("/repo/src/pygom/model/_tau_leap*.so"):
        shutil.copy(so, os.path.join(dst, "src", "pygom", "model"))
    pf = os.path.join(dst_dir, "patch.diff")
    r = subprocess.run(["git", "apply", pf], cwd=dst, stdout=subprocess.PIPE, stderr=subprocess.STDOUT, text=True)
    if r.returncode:
        r = subprocess.run(["git", "apply", "--ignore-whitespace", pf], cwd=dst, stdout=subprocess.PIPE,
                           stderr=subprocess.STDOUT, text=True)
    if r.returncode:
        r = subprocess.run(["patch", "-p1", "-l", "-s", "-i", pf], cwd=dst, stdout=subprocess.PIPE, stderr=subprocess.STDOUT, text=True)
    if r.returncode == 0:
        # keep the patch in the form that applies to the current /repo
        d = subprocess.run(["git", "diff", "--", "src"], cwd=dst, stdout=subprocess.PIPE).stdout     # bytes: keep CRs
        if d.strip():
            open(pf, "wb").write(d)
    res["patch_applies"] = r.returncode == 0
    if r.returncode:
        print("patch failed:", r.stdout)
        sys.exit(1)
    env = dict(os.environ, PYTHONHASHSEED="0", MPLBACKEND="Agg")

    def demo(tree):
        e = dict(env, PYTHONPATH=os.path.join(tree, "src"))
        r = subprocess.run(["/venv/bin/python", "-W", "ignore", os.path.join(dst_dir, "demo.py")], env=e, cwd=scratch,
                           stdout=subprocess.PIPE, stderr=subprocess.STDOUT, text=True, timeout=1800)
        return r.returncode, r.stdout[-600:]
    rc_changed, out_changed = demo(dst)
    rc_clean, out_clean = demo("/repo")
    res["demo_changed_exit"] = rc_changed
    res["demo_unchanged_exit"] = rc_clean
    print("demo changed tree: exit %d | unchanged tree: exit %d" % (rc_changed, rc_clean))
    if not a.no_tests:
        t0 = time.time()
        e = dict(env, PYTHONPATH=os.path.join(dst, "src"))
        r = subprocess.run(["/venv/bin/python", "-m", "pytest", "-q", "-p", "no:cacheprovider", "--timeout=900", "tests"],
                           env=e, cwd=dst, stdout=subprocess.PIPE, stderr=subprocess.STDOUT, text=True)
        tail = [l for l in r.stdout.splitlines() if re.search(r"\d+ passed|failed|error", l)]
        res["test_suite"] = {"exit": r.returncode, "summary": tail[-1] if tail else r.stdout[-300:], "wall_s": round(time.time() - t0)}
        print("test suite:", res["test_suite"])
    checks = {}
    for prop in a.props.split(","):
        rdir = os.path.join(scratch, "replays")
        e = dict(env, VERIF_REPO=dst, VERIF_REPLAY_DIR=rdir, VERIF_EVIDENCE_DIR=os.path.join(scratch, "evidence"))
        t0 = time.time()
        r = subprocess.run(["/verif/check", prop, a.tier], env=e, stdout=subprocess.PIPE, stderr=subprocess.STDOUT, text=True)
        finds = [l.strip() for l in r.stdout.splitlines() if l.startswith("    finding")]
        checks[prop] = {"tier": a.tier, "exit": r.returncode,
                        "verdict": {0: "missed", 1: "caught", 2: "harness-error"}.get(r.returncode, str(r.returncode)),
                        "findings": [f[:300] for f in finds[:4]], "wall_s": round(time.time() - t0)}
        print(prop, a.tier, checks[prop]["verdict"], finds[:2])
        if r.returncode == 2:
            print(r.stdout[-2000:])
    res["our_checks"] = checks
finally:
    subprocess.run(["git", "-C", "/repo", "worktree", "remove", "--force", os.path.join(scratch, "repo")],
                   stdout=subprocess.DEVNULL, stderr=subprocess.DEVNULL)
    shutil.rmtree(scratch, ignore_errors=True)
    subprocess.run(["git", "-C", "/repo", "worktree", "prune"], stdout=subprocess.DEVNULL, stderr=subprocess.DEVNULL)
prev = meta.get("confirmed", {})
if "test_suite" not in res and "test_suite" in prev:
    res["test_suite"] = prev["test_suite"]
if prev.get("our_checks") and prev["our_checks"] != res.get("our_checks"):
    meta.setdefault("earlier_check_results", []).append(prev["our_checks"])
meta["confirmed"] = res
meta["what_i_ran"] = ("tools/seedcheck.py: copy of /repo + patch.diff; demo.py on changed and unchanged tree; repository test suite on the "
                      "changed tree; ./check <prop> %s with VERIF_REPO=<copy>" % a.tier)
json.dump(meta, open(meta_path, "w"), indent=1)
