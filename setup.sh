#!/bin/sh
# MANIFEST.setup_cmd: offline bootstrap after a fresh restore.
HERE="$(cd "$(dirname "$0")" && pwd)"
cd "$HERE" || exit 2
export PIP_NO_INDEX=1 PYTHONHASHSEED=0 PYTHONDONTWRITEBYTECODE=1 MPLBACKEND=Agg
PYBIN="${VERIF_PYTHON:-/venv/bin/python}"
exec "$PYBIN" -W ignore -m pbt.setup
