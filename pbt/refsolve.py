"""Independent reference trajectories and sensitivities (scipy solve_ivp on the IR's own right-hand side)."""
import numpy as np
from scipy.integrate import solve_ivp

from pbt import ir
from pbt.harness import Inconclusive


def solve(f, x0, t0, times, rtol=1e-12, atol=1e-14, method="DOP853", jac=None):
    times = np.asarray(times, float)
    if len(times) == 0:
        return np.zeros((0, len(x0)))
    kw = {}
    if jac is not None and method in ("LSODA", "Radau", "BDF"):
        kw["jac"] = jac
    sol = solve_ivp(f, (t0, float(times[-1])), np.asarray(x0, float), method=method, t_eval=times,
                    rtol=rtol, atol=atol, **kw)
    if not sol.success or sol.y.shape[1] != len(times) or not np.isfinite(sol.y).all():
        raise Inconclusive("reference integrator failed")
    return sol.y.T


def reference_solution(f, x0, t0, times, tol, label="reference"):
    """Two high-accuracy references that must agree to tol/10; also returns a conditioning estimate:
    error of a deliberately loose (rtol=1e-6) run divided by 1e-6."""
    a = solve(f, x0, t0, times, method="DOP853")
    b = solve(f, x0, t0, times, method="LSODA", rtol=1e-12, atol=1e-14)
    scale = 1 + np.abs(a).max()
    if np.abs(a - b).max() > 0.1 * tol * scale:
        raise Inconclusive("references disagree")
    loose = solve(f, x0, t0, times, method="RK45", rtol=1e-6, atol=1e-9)
    amp = np.abs(loose - a).max() / (1e-6 * scale)
    return a, amp


def ir_rhs(m, theta):
    return ir.rhs_callable(m, list(theta))


def sens_system(m, theta, with_iv=False):
    """Variational equations written from jet derivatives: z = [x, vec_F(S) (, vec_F(S0))]."""
    n_s = len(ir.state_names(m))
    n_p = len(theta)

    def f(t, z):
        x = z[:n_s]
        d = ir.derivatives(m, list(x), float(t), list(theta))
        S = z[n_s:n_s + n_s * n_p].reshape((n_s, n_p), order="F")
        dS = d["J"].dot(S) + d["G"]
        out = [d["f"], dS.reshape(-1, order="F")]
        if with_iv:
            S0 = z[n_s + n_s * n_p:].reshape((n_s, n_s), order="F")
            out.append(d["J"].dot(S0).reshape(-1, order="F"))
        return np.concatenate(out)
    return f


def reference_sensitivities(m, theta, x0, t0, times, with_iv=False, rtol=1e-11, atol=1e-13):
    """Returns X[k,i], S[k,i,p] = dx_i(t_k)/dtheta_p and (optionally) S0[k,i,j] = dx_i(t_k)/dx0_j."""
    n_s, n_p = len(x0), len(theta)
    z0 = [np.asarray(x0, float), np.zeros(n_s * n_p)]
    if with_iv:
        z0.append(np.eye(n_s).reshape(-1, order="F"))
    z0 = np.concatenate(z0)
    Z = solve(sens_system(m, theta, with_iv), z0, t0, times, rtol=rtol, atol=atol, method="DOP853")
    X = Z[:, :n_s]
    S = Z[:, n_s:n_s + n_s * n_p].reshape((len(times), n_s, n_p), order="F") if n_p else np.zeros((len(times), n_s, 0))
    if n_p:
        S = np.stack([Z[k, n_s:n_s + n_s * n_p].reshape((n_s, n_p), order="F") for k in range(len(times))])
    out = [X, S]
    if with_iv:
        S0 = np.stack([Z[k, n_s + n_s * n_p:].reshape((n_s, n_s), order="F") for k in range(len(times))])
        out.append(S0)
    return out


def selftest():
    # linear system with closed form: x' = -a x + b, S = dx/da, dx/db
    m = {"state_decl": [{"name": "X", "lims": None}], "params": ["a", "b"], "derived": [],
         "events": [{"rate": ir.mul(ir.P("a"), ir.S("X")), "trans": [{"kind": "D", "o": "X", "d": None, "mag": {"int": 1}}]},
                    {"rate": ir.P("b"), "trans": [{"kind": "B", "o": None, "d": "X", "mag": {"int": 1}}]}],
         "odes": []}
    a, b, x0 = 0.7, 1.3, 2.0
    ts = np.array([0.5, 1.0, 2.0])
    X, S, S0 = reference_sensitivities(m, [a, b], [x0], 0.0, ts, with_iv=True)
    ex = b / a + (x0 - b / a) * np.exp(-a * ts)
    assert np.abs(X[:, 0] - ex).max() < 1e-9
    dxa = -b / a ** 2 + (b / a ** 2) * np.exp(-a * ts) - ts * (x0 - b / a) * np.exp(-a * ts)
    dxb = (1 - np.exp(-a * ts)) / a
    assert np.abs(S[:, 0, 0] - dxa).max() < 1e-8 and np.abs(S[:, 0, 1] - dxb).max() < 1e-8
    assert np.abs(S0[:, 0, 0] - np.exp(-a * ts)).max() < 1e-9
    ref, amp = reference_solution(ir_rhs(m, [a, b]), [x0], 0.0, ts, 1e-6)
    assert np.abs(ref[:, 0] - ex).max() < 1e-10 and amp < 20
