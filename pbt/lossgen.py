"""Generators, builders and reference formulas shared by the loss properties (C06, C07, C17, C18, C20)."""
import math

import numpy as np
from hypothesis import strategies as st

from pbt import ir, refdist, refsolve, render, strategies as S
from pbt.harness import Inconclusive, PropertyViolation

KINDS = ["Square", "Normal", "Poisson", "Gamma", "NegBinom"]
SPREAD_KW = {"Normal": "sigma", "Gamma": "shape", "NegBinom": "k"}


def _T(o, d, rate):
    return {"rate": rate, "rate_kind": "x", "trans": [{"kind": "T", "o": o, "d": d, "mag": {"int": 1}}]}


def _B(d, rate):
    return {"rate": rate, "rate_kind": "x", "trans": [{"kind": "B", "o": None, "d": d, "mag": {"int": 1}, "birth_by": "destination"}]}


def _D(o, rate):
    return {"rate": rate, "rate_kind": "x", "trans": [{"kind": "D", "o": o, "d": None, "mag": {"int": 1}}]}


def _mirror(name):
    """Hand-written abstract mirror of a pygom.common_models entry (states, parameters in the catalogue's order)."""
    P, St, mul, div, add, neg, C = ir.P, ir.S, ir.mul, ir.div, ir.add, ir.neg, ir.C
    if name == "SIR_norm":
        states, params = ["S", "I", "R"], ["beta", "gamma"]
        ev, od = [_T("S", "I", mul(P("beta"), St("S"), St("I"))), _T("I", "R", mul(P("gamma"), St("I")))], []
    elif name in ("SIS", "SIR", "SEIR"):
        params = {"SIS": ["beta", "gamma", "N"], "SIR": ["beta", "gamma", "N"], "SEIR": ["beta", "alpha", "gamma", "N"]}[name]
        states = {"SIS": ["S", "I"], "SIR": ["S", "I", "R"], "SEIR": ["S", "E", "I", "R"]}[name]
        foi = div(mul(P("beta"), St("S"), St("I")), P("N"))
        if name == "SIS":
            ev = [_T("S", "I", foi), _T("I", "S", mul(P("gamma"), St("I")))]
        elif name == "SIR":
            ev = [_T("S", "I", foi), _T("I", "R", mul(P("gamma"), St("I")))]
        else:
            ev = [_T("S", "E", foi), _T("E", "I", mul(P("alpha"), St("E"))), _T("I", "R", mul(P("gamma"), St("I")))]
        od = []
    elif name == "Lotka_Volterra":
        states, params = ["x", "y"], ["alpha", "beta", "gamma", "delta"]
        ev = [_B("x", mul(P("alpha"), St("x"))), _D("x", mul(P("beta"), St("x"), St("y"))),
              _B("y", mul(P("delta"), St("x"), St("y"))), _D("y", mul(P("gamma"), St("y")))]
        od = []
    elif name == "FitzHugh":
        states, params = ["V", "R"], ["a", "b", "c"]
        V, R = St("V"), St("R")
        ev = []
        od = [{"state": "V", "expr": mul(P("c"), add(add(V, neg(div(mul(V, V, V), C(3)))), R))},
              {"state": "R", "expr": neg(div(add(add(V, neg(P("a"))), mul(P("b"), R)), P("c")))}]
    else:
        raise KeyError(name)
    return {"state_decl": [{"name": n, "lims": None} for n in states], "state_style": "list", "params": params,
            "param_style": "list", "derived": [], "events": ev, "odes": od, "family": "catalogue:" + name, "catalogue": name}


# name: (parameter box, initial-state box, longest horizon, signed trajectories?)
CATALOGUE = {
    "SIR_norm": ({"beta": (0.3, 1.5), "gamma": (0.1, 0.8)}, [(0.5, 0.95), (0.01, 0.2), (0.0, 0.1)], 8.0, False),
    "SIS": ({"beta": (0.3, 1.5), "gamma": (0.1, 0.8), "N": (50, 50)}, [(20, 45), (1, 10)], 8.0, False),
    "SIR": ({"beta": (0.3, 1.5), "gamma": (0.1, 0.8), "N": (60, 60)}, [(30, 50), (1, 10), (0, 5)], 8.0, False),
    "SEIR": ({"beta": (0.3, 1.5), "alpha": (0.2, 1.0), "gamma": (0.1, 0.8), "N": (60, 60)}, [(30, 50), (1, 5), (1, 5), (0, 5)], 8.0, False),
    "Lotka_Volterra": ({"alpha": (0.3, 1.0), "beta": (0.02, 0.15), "gamma": (0.3, 1.0), "delta": (0.02, 0.15)}, [(2, 12), (2, 12)], 4.0, False),
    "FitzHugh": ({"a": (0.1, 0.4), "b": (0.1, 0.4), "c": (1.0, 3.0)}, [(-1.5, 1.5), (-1.0, 1.0)], 4.0, True),
}


@st.composite
def catalogue_case(draw, n_times):
    name = draw(st.sampled_from(sorted(CATALOGUE)))
    pbox, xbox, tmax, _signed = CATALOGUE[name]
    m = _mirror(name)
    theta = [S.sig(draw(S.fl(*pbox[q], 3)), 4) if pbox[q][0] != pbox[q][1] else float(pbox[q][0]) for q in m["params"]]
    x0 = [S.sig(draw(S.fl(lo, hi, 3)), 4) if lo != hi else float(lo) for lo, hi in xbox]
    x0 = [v if abs(v) >= 1e-3 else 0.0 for v in x0]           # no denormal / vanishing initial values
    n = draw(st.integers(*n_times))
    step = draw(S.fl(0.3, 1.0, 2)) * tmax / n
    rel = [S.sig(step * (i + 1), 5) for i in range(n)]
    return m, {"x0": x0, "theta": theta, "t0": draw(st.sampled_from([0.0, 0.0, 1.0, 2020.0])), "grid_rel": rel}


@st.composite
def loss_case(draw, kinds=KINDS, weights=True, target_param="subset-ordered", target_state=False, max_states=4,
              n_times=(2, 12), additive=False, families=("chain", "epidemic", "bounded"), allow_time=True, catalogue=0):
    """target_param: None | 'subset-ordered' (subset in declared order) | 'any-order' (subset, generated order).
    catalogue: k in 0..4 - in k of 4 cases the model is a pygom.common_models entry (with a hand-written abstract mirror)."""
    if catalogue and not additive and draw(st.integers(1, 4)) <= catalogue:
        m, su = draw(catalogue_case(n_times))
        if CATALOGUE[m["catalogue"]][3]:
            kinds = [k for k in kinds if k in ("Square", "Normal")] or ["Square"]
    else:
        m = draw(S.ode_model(max_states=max_states, additive_params=additive, families=families, allow_time=allow_time))
        su = draw(S.ode_setup(m, n_times=n_times, t_max=5.0))
    # container / dtype forms in which a user may legitimately hand over the same numbers
    forms = {"t": draw(st.sampled_from(["float_array", "float_array", "list", "int_array", "int_list"])),
             "y": draw(st.sampled_from(["float_array", "float_array", "list", "int_array"])),
             "x0": draw(st.sampled_from(["list", "list", "array", "tuple", "int_list", "int_array"])),
             "theta": draw(st.sampled_from(["list", "list", "array", "int_list", "int_array"]))}
    if forms["x0"].startswith("int"):
        # whole-number initial populations handed over as Python ints / an integer typed array
        if all(v >= 1.5 for v in su["x0"]):
            su = dict(su, x0=[float(round(v)) for v in su["x0"]])
        else:
            forms["x0"] = "list"
    if forms["t"].startswith("int"):
        # observation times that are whole numbers (day numbers) while the initial time may be fractional
        t0 = draw(st.sampled_from([su["t0"], su["t0"], 0.5, 2.5]))
        steps = [draw(st.sampled_from([1, 1, 1, 2])) for _ in su["grid_rel"]][:5]
        while len(steps) < n_times[0]:
            steps.append(1)
        base, acc, rel = math.floor(t0), 0, []
        for k in steps:
            acc += k
            rel.append(float((base + acc) - t0))
        su = dict(su, t0=t0, grid_rel=rel)
    names = ir.state_names(m)
    kind = draw(st.sampled_from(list(kinds)))
    k_obs = draw(st.integers(1, len(names)))
    obs = list(draw(st.permutations(names)))[:k_obs]
    obs_form = draw(st.sampled_from(["str", "list"])) if k_obs == 1 else "list"
    if k_obs >= 2 and len(su["grid_rel"]) > k_obs and draw(st.integers(0, 5)) == 0:
        # as many observation times as observed states: a square data matrix, where rows and columns are easily confused
        su = dict(su, grid_rel=list(su["grid_rel"])[:k_obs])
    n, p = len(su["grid_rel"]), k_obs

    def spread_like(lo, hi):
        form = draw(st.sampled_from(["scalar", "scalar", "per-state", "matrix"]))
        if p >= 2 and n == p and draw(st.booleans()):
            form = "matrix"           # a full matrix on a square data set: entry [i, j] belongs to time i and state j
        if form == "scalar" or (p == 1 and form == "per-state"):
            return draw(S.fl(lo, hi, 3))
        if form == "per-state":
            return [draw(S.fl(lo, hi, 3)) for _ in range(p)]
        return [[draw(S.fl(lo, hi, 3)) for _ in range(p)] for _ in range(n)]
    spread = None
    if kind in SPREAD_KW and draw(st.integers(0, 4)) != 0:
        spread = spread_like(0.3, 4.0)
    w = None
    if weights and kind in ("Square", "Normal") and draw(st.booleans()):
        w = spread_like(0.2, 2.5)
    tp = None
    if target_param and len(m["params"]) >= 1 and draw(st.booleans()):
        k = draw(st.integers(1, len(m["params"])))
        if target_param == "any-order":
            tp = list(draw(st.permutations(m["params"])))[:k]
        else:
            sel = sorted(draw(st.lists(st.integers(0, len(m["params"]) - 1), min_size=k, max_size=k, unique=True)))
            tp = [m["params"][i] for i in sel]
    ts = None
    if target_state and draw(st.booleans()):
        k = draw(st.integers(1, len(names)))
        ts = list(draw(st.permutations(names)))[:k]
    theta_eval = [S.sig(v * draw(st.sampled_from([1.0, 0.8, 1.25, 0.6, 1.5])), 4) for v in su["theta"]]
    x0_eval = [S.sig(v * draw(st.sampled_from([1.0, 1.0, 0.9, 1.2])), 4) for v in su["x0"]]
    return {"model": m, "setup": su, "loss": kind, "obs": obs, "obs_form": obs_form, "spread": spread, "weights": w,
            "target_param": tp, "target_state": ts, "theta_eval": theta_eval, "x0_eval": x0_eval, "forms": forms,
            "noise": draw(st.sampled_from([0.0, 0.0, 0.05, 0.2])), "noise_phase": draw(st.integers(0, 1000))}


def times_of(case):
    su = case["setup"]
    return np.array([su["t0"] + v for v in su["grid_rel"]])


def reference_traj(m, theta, x0, t0, times, tol=1e-6, max_amp=20.0):
    ref, amp = refsolve.reference_solution(refsolve.ir_rhs(m, theta), x0, t0, times, tol)
    if amp > max_amp:
        raise Inconclusive("ill-conditioned trajectory")
    return ref


def make_data(case):
    """Observations: reference trajectory at the generating parameters, optionally perturbed, in the observed columns."""
    m, su = case["model"], case["setup"]
    names = ir.state_names(m)
    times = times_of(case)
    ref = reference_traj(m, su["theta"], su["x0"], su["t0"], times)
    cols = [names.index(s) for s in case["obs"]]
    y = ref[:, cols].copy()
    if (y <= 1e-6).any() and case["loss"] not in ("Square", "Normal"):
        raise Inconclusive("observed trajectory not positive")
    if case["noise"]:
        i, j = np.indices(y.shape)
        y = y * (1 + case["noise"] * np.sin(1.7 * i + 2.3 * j + case["noise_phase"]))
    if case["loss"] in ("Poisson", "NegBinom"):
        y = np.maximum(np.rint(y * (1 if y.max() > 3 else 10)), 1.0)
    return y, ref


def broadcast(v, n, p, default=1.0):
    if v is None:
        return np.full((n, p), default)
    a = np.array(v, float)
    if a.ndim == 0:
        return np.full((n, p), float(a))
    if a.ndim == 1:
        return np.tile(a.reshape(1, p), (n, 1))
    return a.reshape(n, p)


def build(case, y, model=None, shared=None):
    """Construct the PyGOM model and loss object as a user would.
    model: build the loss object on this existing model object instead of a new one;
    shared: a dict that keeps the input objects (time array, data array, x0 array) of the first loss object built with
    it, so that a second build hands the SAME Python objects to another loss object (x0 = np.array(...) written once and
    passed to two loss objects)."""
    import pygom
    m, su = case["model"], case["setup"]
    if model is not None:
        pass
    elif m.get("catalogue"):
        from pygom import common_models
        from pygom.model import ode_utils
        model = getattr(common_models, m["catalogue"])()
        model._SC = ode_utils.compileCode(backend="lambda")
        model.parameters = list(su["theta"])
        # the hand-written mirror must describe the same system, otherwise the oracle is in doubt (assembly is C01's subject)
        f_model = np.asarray(model.ode(list(su["x0"]), su["t0"]), float).reshape(-1)
        f_ir = ir.reference_float(m, su["x0"], su["t0"], su["theta"])["f"]
        if not np.allclose(f_model, f_ir, rtol=1e-9, atol=1e-12):
            raise Inconclusive("catalogue mirror disagrees with the model's ode")
    else:
        model, order = render.build(m)
        model.parameters = list(su["theta"])
    cls = getattr(pygom, case["loss"] + "Loss")
    times = times_of(case)
    p = len(case["obs"])
    yy = y[:, 0] if p == 1 else y
    state_name = case["obs"][0] if case["obs_form"] == "str" else list(case["obs"])
    tp = case["target_param"]
    theta0 = list(su["theta"]) if tp is None else [su["theta"][m["params"].index(q)] for q in tp]
    kw = {}
    if case["weights"] is not None:
        kw["state_weight"] = case["weights"]
    if case["spread"] is not None and case["loss"] in SPREAD_KW:
        kw[SPREAD_KW[case["loss"]]] = case["spread"]
    if tp is not None:
        kw["target_param"] = list(tp)
    if case["target_state"] is not None:
        kw["target_state"] = list(case["target_state"])
    forms = case.get("forms") or {}
    t_arg, y_arg, x0_arg, th_arg = times, yy, list(su["x0"]), theta0
    tf = forms.get("t", "float_array")
    if tf == "list":
        t_arg = [float(v) for v in times]
    elif tf in ("int_array", "int_list") and np.all(times == np.rint(times)):
        t_arg = np.rint(times).astype(int) if tf == "int_array" else [int(v) for v in np.rint(times)]
    yf = forms.get("y", "float_array")
    if yf == "list":
        y_arg = np.asarray(yy).tolist()
    elif yf == "int_array" and np.all(np.asarray(yy) == np.rint(yy)):
        y_arg = np.rint(yy).astype(int)
    xf = forms.get("x0", "list")
    if xf == "array":
        x0_arg = np.array(su["x0"], float)
    elif xf == "tuple":
        x0_arg = tuple(su["x0"])
    elif xf in ("int_list", "int_array") and all(v == int(v) for v in su["x0"]):
        x0_arg = [int(v) for v in su["x0"]] if xf == "int_list" else np.array([int(v) for v in su["x0"]])
    if forms.get("theta") == "array":
        th_arg = np.array(theta0, float)
    elif forms.get("theta") in ("int_list", "int_array"):
        # the construction-time guess is only a starting value (every evaluation passes theta explicitly): whole numbers
        th_arg = [1] * len(theta0) if forms["theta"] == "int_list" else np.ones(len(theta0), dtype=int)
    if shared is not None:
        if "args" in shared:
            x0_arg, t_arg, y_arg = shared["args"]
        else:
            shared["args"] = (x0_arg, t_arg, y_arg)
    obj = cls(th_arg, model, x0_arg, su["t0"], t_arg, y_arg, state_name, **kw)
    return model, obj


def companion(case, model):
    """A second loss object on the SAME model object (another data set fitted with the same model): other parameters, other
    initial state, other observation times.  Whatever it writes into the shared model must not leak into the first object's
    results, because every evaluation of a loss object is documented to be a function of its own arguments and data."""
    import pygom
    m, su = case["model"], case["setup"]
    names = ir.state_names(m)
    # parameters outside the first object's target_param live in the shared model by design: the companion leaves them alone
    tset = set(case["target_param"] or m["params"])
    theta = [S.sig(v * 1.7, 4) if q in tset else v for q, v in zip(m["params"], su["theta"])]
    x0 = [S.sig(v * 0.6, 4) for v in su["x0"]]
    t0 = su["t0"] + 0.25
    t = np.array([t0 + 0.5, t0 + 1.0, t0 + 1.75])
    comp = pygom.SquareLoss(theta, model, x0, t0, t, np.ones(3), names[-1])
    comp._pbt_thetas = [np.array(theta, float), np.array([S.sig(v * 0.9, 4) if q in tset else v for q, v in zip(m["params"], theta)], float)]
    comp._pbt_calls = 0
    return comp


def companion_work(comp):
    """What the other user of the shared model does between two of our calls: a cost and a gradient evaluation at
    parameters that alternate between two values (explicitly passed, as an optimiser would)."""
    comp._pbt_calls += 1
    th = comp._pbt_thetas[comp._pbt_calls % 2]
    comp.cost(th.copy())
    comp.gradient(th.copy())


def interleave(obj, methods, between):
    """Make every listed method of `obj` be preceded by between() - the other user of the shared model doing its work."""
    for name in methods:
        inner = getattr(obj, name)

        def wrapped(*a, _inner=inner, **k):
            between()
            return _inner(*a, **k)
        setattr(obj, name, wrapped)


def full_theta(case, free_values):
    """Full parameter vector when the free parameters (target_param order) take free_values."""
    m, su = case["model"], case["setup"]
    th = list(su["theta"])
    tp = case["target_param"] or m["params"]
    for q, v in zip(tp, free_values):
        th[m["params"].index(q)] = v
    return th


def free_theta(case):
    m = case["model"]
    tp = case["target_param"] or m["params"]
    return [case["theta_eval"][m["params"].index(q)] for q in tp]


def default_spread(kind):
    return {"Normal": 1.0, "Gamma": 2.0, "NegBinom": 1.0}.get(kind, 1.0)


def ref_cost(case, y, yhat):
    """The class's loss formula applied to data y and prediction yhat (both n x p, observed order)."""
    n, p = y.shape
    kind = case["loss"]
    W = broadcast(case["weights"], n, p, 1.0) if kind in ("Square", "Normal") else np.ones((n, p))
    Sp = broadcast(case["spread"], n, p, default_spread(kind))
    tot = 0.0
    for i in range(n):
        for j in range(p):
            tot += refdist.nll(kind, y[i, j], yhat[i, j], Sp[i, j], W[i, j])
    return float(tot)


def ref_dloss(case, y, yhat):
    """d cost / d yhat[i,j] for the class's cost (weights only for Square and Normal)."""
    n, p = y.shape
    kind = case["loss"]
    W = broadcast(case["weights"], n, p, 1.0) if kind in ("Square", "Normal") else np.ones((n, p))
    Sp = broadcast(case["spread"], n, p, default_spread(kind))
    out = np.zeros((n, p))
    for i in range(n):
        for j in range(p):
            out[i, j] = float(refdist.d1(kind, y[i, j], yhat[i, j], Sp[i, j], W[i, j]))
    return out


def ref_d2loss(case, y, yhat):
    n, p = y.shape
    kind = case["loss"]
    W = broadcast(case["weights"], n, p, 1.0) if kind in ("Square", "Normal") else np.ones((n, p))
    Sp = broadcast(case["spread"], n, p, default_spread(kind))
    out = np.zeros((n, p))
    for i in range(n):
        for j in range(p):
            out[i, j] = float(refdist.d2(kind, y[i, j], yhat[i, j], Sp[i, j], W[i, j]))
    return out


def obs_cols(case):
    names = ir.state_names(case["model"])
    return [names.index(s) for s in case["obs"]]


def describe(case):
    from pbt.util import pretty
    return {"model": pretty(case["model"]), "setup": case["setup"], "loss": case["loss"], "observed": case["obs"],
            "spread": case["spread"], "weights": case["weights"], "target_param": case["target_param"],
            "target_state": case["target_state"], "theta_eval": case["theta_eval"]}


def construction_theta(case):
    """The free-parameter values the loss object is constructed with (what cost() with theta left at its default refers to)."""
    m, su = case["model"], case["setup"]
    tp = case["target_param"]
    theta0 = list(su["theta"]) if tp is None else [su["theta"][m["params"].index(q)] for q in tp]
    if (case.get("forms") or {}).get("theta") in ("int_list", "int_array"):
        return [1.0] * len(theta0)
    return [float(v) for v in theta0]

