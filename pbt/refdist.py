"""Reference negative log-likelihood kernels (mpmath, own formulas in mean parameterisation)."""
import mpmath as mp

mp.mp.dps = 30


def nll(kind, y, mu, spread=None, w=1.0):
    """Negative log density of one observation y given prediction mu (mpmath numbers)."""
    y, mu = mp.mpf(y), mp.mpf(mu)
    if kind == "Square":
        return (mp.mpf(w) * (y - mu)) ** 2
    if kind == "Normal":
        s = mp.mpf(spread)
        return mp.log(2 * mp.pi) / 2 + mp.log(s) + (mp.mpf(w) * (y - mu)) ** 2 / (2 * s ** 2)
    if kind == "Poisson":
        return -(y * mp.log(mu) - mu - mp.loggamma(y + 1))
    if kind == "Gamma":
        a = mp.mpf(spread)
        return -(-mp.loggamma(a) + (a - 1) * mp.log(y) - a * mp.log(mu / a) - a * y / mu)
    if kind == "NegBinom":
        k = mp.mpf(spread)
        return -(mp.loggamma(k + y) - mp.loggamma(k) - mp.loggamma(y + 1) + k * mp.log(k / (k + mu)) + y * mp.log(mu / (k + mu)))
    raise ValueError(kind)


def d1(kind, y, mu, spread=None, w=1.0):
    return mp.diff(lambda m: nll(kind, y, m, spread, w), mp.mpf(mu))


def d2(kind, y, mu, spread=None, w=1.0):
    return mp.diff(lambda m: nll(kind, y, m, spread, w), mp.mpf(mu), 2)


def selftest():
    import scipy.stats as ss
    assert abs(float(nll("Normal", 1.3, 0.9, 0.7)) + ss.norm.logpdf(1.3, 0.9, 0.7)) < 1e-12
    assert abs(float(nll("Poisson", 4, 2.5)) + ss.poisson.logpmf(4, 2.5)) < 1e-12
    assert abs(float(nll("Gamma", 1.3, 0.9, 2.5)) + ss.gamma.logpdf(1.3, a=2.5, scale=0.9 / 2.5)) < 1e-12
    assert abs(float(nll("NegBinom", 4, 2.5, 1.7)) + ss.nbinom.logpmf(4, n=1.7, p=1.7 / (1.7 + 2.5))) < 1e-12
    assert abs(float(d1("Poisson", 4, 2.5)) - (1 - 4 / 2.5)) < 1e-12
