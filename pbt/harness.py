"""Runner shared by all property checks (see DESIGN.md section 2.3).

A property module (pbt/props/cXX.py) provides

    ID, TITLE, RULE, ASSUMPTIONS
    BUDGET = {"quick": (n_shards, examples_per_shard), "thorough": (...)}
    strategy(tier)                  -> hypothesis strategy producing a JSON-able case   (given-style)
    oracle(case, rec)               -> None | raises PropertyViolation / Inconclusive
  or, for histories,
    machine(tier, rec, ctl)         -> RuleBasedStateMachine subclass                    (stateful)
    replay(case, rec)               -> None | raises
  and optionally
    extra(tier, seed, rec)          -> additional generated-input parts run once in the parent
                                       (e.g. the Cython back-end sample)

The oracle is a plain function of the case: Hypothesis only produces cases.  Replay bypasses
Hypothesis entirely.
"""
import collections
import contextlib
import hashlib
import importlib
import io
import json
import multiprocessing
import os
import sys
import time
import traceback

VERIF = os.path.dirname(os.path.dirname(os.path.abspath(__file__)))


# --------------------------------------------------------------------------------------------
class PropertyViolation(Exception):
    def __init__(self, key, message, case=None):
        super().__init__("%s: %s" % (key, message))
        self.key = key
        self.message = message
        self.case = case


class Inconclusive(Exception):
    """The oracle cannot decide this case (reference disagreement, ill-conditioning, ...)."""


def canon(obj):
    return json.dumps(obj, sort_keys=True, default=_default)


def _default(o):
    import numpy as np
    if isinstance(o, (np.integer,)):
        return int(o)
    if isinstance(o, (np.floating,)):
        return float(o)
    if isinstance(o, np.ndarray):
        return o.tolist()
    if isinstance(o, (set, frozenset)):
        return sorted(o)
    if isinstance(o, tuple):
        return list(o)
    return repr(o)


def case_hash(case):
    return hashlib.sha256(canon(case).encode()).hexdigest()[:16]


class Recorder:
    """Counters a property fills in while it runs (one per shard, merged by the parent)."""
    MAX_SAMPLES = 4

    def __init__(self):
        self.evaluations = 0
        self.nontrivial = set()
        self.labels = collections.Counter()
        self.samples = []
        self.inconclusive = collections.Counter()
        self.known = collections.Counter()
        self.extra = {}
        self.frozen = False      # set once a failure is being shrunk: counters stop moving

    def label(self, *names):
        if self.frozen:
            return
        for n in names:
            self.labels[n] += 1

    def mark_nontrivial(self, case, sample=None):
        if self.frozen:
            return
        h = case_hash(case)
        if h not in self.nontrivial:
            self.nontrivial.add(h)
            if len(self.samples) < self.MAX_SAMPLES:
                self.samples.append(json.loads(canon(sample if sample is not None else case)))

    def dump(self):
        return dict(evaluations=self.evaluations, nontrivial=sorted(self.nontrivial),
                    labels=dict(self.labels), samples=self.samples,
                    inconclusive=dict(self.inconclusive), known=dict(self.known),
                    extra=self.extra)


def merge(dumps):
    out = Recorder()
    for d in dumps:
        out.evaluations += d["evaluations"]
        out.nontrivial.update(d["nontrivial"])
        out.labels.update(d["labels"])
        out.inconclusive.update(d["inconclusive"])
        out.known.update(d["known"])
        for s in d["samples"]:
            if len(out.samples) < 6:
                out.samples.append(s)
        for k, v in d.get("extra", {}).items():
            if isinstance(v, (int, float)) and isinstance(out.extra.get(k, 0), (int, float)):
                out.extra[k] = out.extra.get(k, 0) + v
            else:
                out.extra.setdefault(k, v)
    return out


# --------------------------------------------------------------------------------------------
def load_known():
    path = os.path.join(VERIF, "known_findings.json")
    if not os.path.exists(path):
        return []
    with open(path) as f:
        return json.load(f)["findings"]


def open_keys(prop_id):
    return {e["key"]: e for e in load_known()
            if e["property"] == prop_id and e.get("status") == "open"}


class CaseTimeout(BaseException):
    pass


@contextlib.contextmanager
def safety_net(seconds):
    """Wall-clock safety net per case: expiry means 'inconclusive', never a violation."""
    import signal

    def handler(signum, frame):
        raise CaseTimeout()
    try:
        old = signal.signal(signal.SIGALRM, handler)
    except ValueError:          # not in the main thread
        yield
        return
    signal.setitimer(signal.ITIMER_REAL, seconds, 2.0)     # repeat: an exception raised inside a C callback can be swallowed
    try:
        yield
    finally:
        signal.setitimer(signal.ITIMER_REAL, 0)
        signal.signal(signal.SIGALRM, old)


@contextlib.contextmanager
def quiet():
    """Capture everything the code under test prints (it prints 'Illegal jump ...')."""
    buf = io.StringIO()
    with contextlib.redirect_stdout(buf):
        yield buf


class ShrinkControl:
    """Keeps Hypothesis' shrinker on one root cause and under a call budget.

    After the first failure only failures with the same finding key count; after `cap` further
    executions only cases already known to fail are reported as failing (so the final replay of the
    best example still fails) and everything else passes without running the oracle.
    """

    def __init__(self, cap):
        self.cap = cap
        self.key = None
        self.calls_after = 0
        self.failed = {}       # case hash -> (key, message)
        self.best = None       # smallest failing case seen (by canonical length)

    def before(self, h):
        """Return 'run', 'skip' or a cached (key,msg) failure."""
        if self.key is None:
            return "run"
        self.calls_after += 1
        if h in self.failed:
            return self.failed[h]
        if self.calls_after > self.cap:
            return "skip"
        return "run"

    def on_failure(self, h, v, case):
        if self.key is None:
            self.key = v.key
        if v.key != self.key:
            return False
        self.failed[h] = (v.key, v.message)
        size = len(canon(case))
        if self.best is None or size <= self.best[0]:
            self.best = (size, case, v.key, v.message)
        return True


def _hyp_settings(n, shrink=True, stateful_steps=None):
    from hypothesis import settings, HealthCheck, Phase
    phases = [Phase.generate, Phase.shrink] if shrink else [Phase.generate]
    kw = dict(max_examples=n, database=None, deadline=None, derandomize=False,
              report_multiple_bugs=False, phases=phases, print_blob=False,
              suppress_health_check=list(HealthCheck))
    if stateful_steps is not None:
        kw["stateful_step_count"] = stateful_steps
    return settings(**kw)


def _strategy(mod, tier, mode):
    if mode is None:
        return mod.strategy(tier)
    return mod.strategy(tier, mode)


def run_given_shard(mod, tier, seed, n, rec, mode=None):
    """Run one Hypothesis @given campaign; return failure dict or None."""
    import hypothesis
    from hypothesis import given
    known = open_keys(mod.ID)
    ctl = ShrinkControl(cap=120 if tier == "quick" else 600)

    @hypothesis.seed(seed)
    @_hyp_settings(n)
    @given(_strategy(mod, tier, mode))
    def prop(case):
        h = case_hash(case)
        act = ctl.before(h)
        if act == "skip":
            return
        if isinstance(act, tuple):
            raise PropertyViolation(act[0], act[1], case)
        if ctl.key is None:
            rec.evaluations += 1
        try:
            with quiet(), safety_net(getattr(mod, "CASE_TIMEOUT", 120)):
                mod.oracle(case, rec)
        except CaseTimeout:
            rec.inconclusive["safety-net timeout"] += 1
            if os.environ.get("VERIF_SLOW_CASES"):
                # debugging aid: keep the cases that hit the safety net
                try:
                    with open(os.environ["VERIF_SLOW_CASES"], "a") as fh:
                        fh.write(canon(case) + "\n")
                except Exception:
                    pass
        except Inconclusive as e:
            rec.inconclusive[str(e).split(":")[0][:60]] += 1
        except PropertyViolation as v:
            v.case = case
            if v.key in known:
                rec.known[v.key] += 1
                return
            if ctl.on_failure(h, v, case):
                rec.frozen = True
                raise
            return

    try:
        prop()
    except PropertyViolation as v:
        best = ctl.best
        case = best[1] if best else v.case
        return dict(key=v.key if not best else best[2],
                    message=v.message if not best else best[3], case=case)
    except hypothesis.errors.HypothesisException as e:
        if ctl.best:
            return dict(key=ctl.best[2], message=ctl.best[3], case=ctl.best[1])
        raise
    return None


def run_machine_shard(mod, tier, seed, n, rec, mode=None):
    import hypothesis
    from hypothesis.stateful import run_state_machine_as_test
    known = open_keys(mod.ID)
    ctl = ShrinkControl(cap=80 if tier == "quick" else 400)
    ctl.known = known
    Machine = mod.machine(tier, rec, ctl)
    steps = getattr(mod, "STEPS", 12)
    try:
        run_state_machine_as_test(hypothesis.seed(seed)(Machine),
                                  settings=_hyp_settings(n, stateful_steps=steps))
    except PropertyViolation as v:
        best = ctl.best
        return dict(key=best[2] if best else v.key, message=best[3] if best else v.message,
                    case=best[1] if best else v.case)
    except hypothesis.errors.HypothesisException:
        if ctl.best:
            return dict(key=ctl.best[2], message=ctl.best[3], case=ctl.best[1])
        raise
    return None


def _shard_entry(args):
    prop_id, tier, seed, n, idx, mode = args
    t0 = time.time()
    try:
        from pbt import env
        env.activate(build=False)
        mod = importlib.import_module("pbt.props." + prop_id.lower())
        rec = Recorder()
        if hasattr(mod, "machine"):
            fail = run_machine_shard(mod, tier, seed, n, rec, mode)
        else:
            fail = run_given_shard(mod, tier, seed, n, rec, mode)
        return dict(idx=idx, seed=seed, rec=rec.dump(), failure=fail, error=None,
                    wall=time.time() - t0)
    except Exception:
        return dict(idx=idx, seed=seed, rec=Recorder().dump(), failure=None,
                    error=traceback.format_exc(), wall=time.time() - t0)


# --------------------------------------------------------------------------------------------
def write_replay(prop_id, failure, seed, tier):
    d = os.path.join(os.environ.get("VERIF_REPLAY_DIR", os.path.join(VERIF, "replays")), prop_id)
    os.makedirs(d, exist_ok=True)
    body = dict(property=prop_id, finding_key=failure["key"], message=failure["message"],
                case=json.loads(canon(failure["case"])), seed=seed, tier=tier)
    path = os.path.join(d, case_hash(body["case"]) + ".json")
    with open(path, "w") as f:
        json.dump(body, f, indent=1, sort_keys=True)
    return path


def write_evidence(mod, tier, seed, rec, wall, violations, shards, level="exploration"):
    evdir = os.environ.get("VERIF_EVIDENCE_DIR", os.path.join(VERIF, "evidence"))
    os.makedirs(evdir, exist_ok=True)
    cov = dict(evaluations=int(rec.evaluations),
               distinct_nontrivial=int(len(rec.nontrivial)),
               rule=mod.RULE,
               samples=rec.samples if rec.samples else [],
               label_histogram=dict(sorted(rec.labels.items())),
               inconclusive=dict(rec.inconclusive),
               known_finding_hits=dict(rec.known),
               shards=shards)
    cov.update(rec.extra)
    ev = dict(property_id=mod.ID, tier=tier, seed=int(seed), level=level, coverage=cov,
              assumptions=list(mod.ASSUMPTIONS), wall_s=round(wall, 2), violations=int(violations))
    path = os.path.join(evdir, mod.ID + ".json")
    tmp = path + ".tmp"
    with open(tmp, "w") as f:
        json.dump(ev, f, indent=1, sort_keys=True, default=_default)
    try:
        import jsonschema
        schema_path = "/root/.vp/EVIDENCE.schema.json"
        if not os.path.exists(schema_path):
            schema_path = os.path.join(VERIF, "pbt", "EVIDENCE.schema.json")
        with open(schema_path) as f:
            schema = json.load(f)
        with open(tmp) as f:
            jsonschema.validate(json.load(f), schema)
    except ImportError:
        pass
    os.replace(tmp, path)
    return path


def run_check(prop_id, tier):
    t0 = time.time()
    seed = int(os.environ.get("VERIF_SEED", "1"))
    mod = importlib.import_module("pbt.props." + prop_id.lower())
    budget = mod.BUDGET[tier]
    if isinstance(budget, tuple):
        budget = [(None, budget[1])] * budget[0]
    nshards = len(budget)
    scale = float(os.environ.get("VERIF_SCALE", "1"))
    jobs = [(prop_id, tier, seed * 1000 + i, max(1, int(per * scale)), i, mode)
            for i, (mode, per) in enumerate(budget)]
    procs = min(nshards, int(os.environ.get("VERIF_PROCS", "16" if tier == "thorough" else "4")))
    if procs <= 1:
        results = [_shard_entry(j) for j in jobs]
    else:
        ctx = multiprocessing.get_context("fork")
        with ctx.Pool(procs, maxtasksperchild=1) as pool:
            results = pool.map(_shard_entry, jobs, chunksize=1)
    errors = [r for r in results if r["error"]]
    if errors:
        sys.stderr.write("HARNESS ERROR in shard %d:\n%s\n" % (errors[0]["idx"], errors[0]["error"]))
        return 2
    rec = merge([r["rec"] for r in results])
    failures = [r["failure"] for r in results if r["failure"]]
    # parent-side extras (e.g. Cython sample, statistical parts)
    if hasattr(mod, "extra") and not failures:
        try:
            xrec = Recorder()
            with quiet():
                xf = mod.extra(tier, seed, xrec)
            rec = merge([rec.dump(), xrec.dump()])
            if xf:
                failures.append(xf)
        except PropertyViolation as v:
            if v.key in open_keys(prop_id):
                rec.known[v.key] += 1
            else:
                failures.append(dict(key=v.key, message=v.message, case=v.case))
        except Exception:
            sys.stderr.write("HARNESS ERROR in extra():\n%s\n" % traceback.format_exc())
            return 2
    # coverage-guided campaign (atheris) where the property module asks for one
    fz = getattr(mod, "FUZZ", {}).get(tier)
    if fz and not failures:
        try:
            info, ffail = run_fuzz(prop_id, seed, fz)
        except Exception:
            sys.stderr.write("HARNESS ERROR in coverage-guided campaign:\n%s\n" % traceback.format_exc())
            return 2
        rec.extra["engines"] = {"hypothesis": {"evaluations": int(rec.evaluations), "distinct_nontrivial": len(rec.nontrivial)},
                                "atheris": info}
        for k, v in info.get("known", {}).items():
            rec.known[k] += v
        if ffail:
            failures.append(ffail)
    wall = time.time() - t0
    print("[%s %s seed=%d] evaluations=%d distinct_nontrivial=%d inconclusive=%d wall=%.1fs" % (
        prop_id, tier, seed, rec.evaluations, len(rec.nontrivial),
        sum(rec.inconclusive.values()), wall))
    for k, v in sorted(rec.labels.items()):
        print("    label %-48s %d" % (k, v))
    for k, v in sorted(rec.inconclusive.items()):
        print("    inconclusive %-41s %d" % (k, v))
    shards = [dict(seed=r["seed"], evaluations=r["rec"]["evaluations"], wall_s=round(r["wall"], 1))
              for r in results]
    for key, ent in sorted(open_keys(prop_id).items()):
        print("KNOWN-FINDING: property=%s %s [key=%s hits_this_run=%d]" % (
            prop_id, ent["what"], key, rec.known.get(key, 0)))
    code = 0
    if failures:
        seen = set()
        for f in failures:
            if f["key"] in seen:
                continue
            seen.add(f["key"])
            path = write_replay(prop_id, f, seed, tier)
            print("    finding %s: %s" % (f["key"], f["message"][:400]))
            rel = os.path.relpath(path, VERIF)
            print("VIOLATION property=%s replay=%s" % (prop_id, path if rel.startswith("..") else rel))
        code = 1
    if rec.evaluations == 0:
        sys.stderr.write("HARNESS ERROR: no cases were evaluated\n")
        return 2
    inc = sum(rec.inconclusive.values())
    if failures and not rec.samples:
        rec.samples.append(json.loads(canon(failures[0]["case"])))
    try:
        write_evidence(mod, tier, seed, rec, wall, len(failures), shards)
    except Exception as e:
        if code == 0:
            raise
        sys.stderr.write("evidence of a violating run does not validate (%s)\n" % type(e).__name__)
    if code == 0 and inc > 0.25 * max(1, rec.evaluations):
        sys.stderr.write("HARNESS ERROR: %d of %d cases inconclusive (generator needs fixing)\n"
                         % (inc, rec.evaluations))
        return 2
    return code


def run_fuzz(prop_id, seed, spec):
    """Run the atheris campaigns of pbt/fuzz_target.py as subprocesses and merge their side files.

    spec: {"runs": N per campaign, "campaigns": [(mode, seed offset), ...]}.  Returns (info dict, failure or None)."""
    import shutil
    import subprocess
    import tempfile
    from pbt import env
    try:
        env.ensure_deps(extra=(("atheris", "atheris"),))
    except Exception as e:
        return {"skipped": "atheris is not installable here: %s" % (str(e)[:200],)}, None
    scratch = tempfile.mkdtemp(prefix="pygom_fuzz_", dir=env._scratch_root())
    procs = []
    try:
        for i, (mode, off) in enumerate(spec["campaigns"]):
            side = os.path.join(scratch, "side_%d.json" % i)
            corpus = os.path.join(scratch, "corpus_%d" % i)
            log = open(os.path.join(scratch, "log_%d.txt" % i), "w")
            cmd = [sys.executable, "-W", "ignore", "-m", "pbt.fuzz_target", prop_id, str(int(spec["runs"])),
                   str(seed * 100 + off), side, corpus, mode]
            procs.append((mode, seed * 100 + off, side, log,
                          subprocess.Popen(cmd, cwd=VERIF, stdout=log, stderr=subprocess.STDOUT)))
        camp, dumps, failure = [], [], None
        for mode, cseed, side, log, pr in procs:
            try:
                rc = pr.wait(timeout=spec.get("timeout", 3600))
            except subprocess.TimeoutExpired:
                pr.kill()
                rc = "timeout"
            log.close()
            d = json.load(open(side)) if os.path.exists(side) else None
            if d is None:
                raise RuntimeError("campaign %s/%s wrote no side file (exit %s):\n%s" % (
                    mode, cseed, rc, open(log.name).read()[-2000:]))
            if d.get("failure") and failure is None:
                failure = d["failure"]
            elif rc not in (0, "timeout") and not d.get("failure"):
                raise RuntimeError("campaign %s/%s exited with %s without a recorded failure:\n%s" % (
                    mode, cseed, rc, open(log.name).read()[-2000:]))
            camp.append(dict(mode=mode, seed=cseed, libfuzzer_runs=d["libfuzzer_runs"],
                             property_executions=d["property_executions"], distinct_nontrivial=len(d["nontrivial"]),
                             wall_s=d["wall_s"], exit=rc))
            dumps.append(d)
        m = merge(dumps)
        info = dict(campaigns=camp, property_executions=int(m.evaluations), distinct_nontrivial=len(m.nontrivial),
                    label_histogram=dict(sorted(m.labels.items())), inconclusive=dict(m.inconclusive), known=dict(m.known),
                    samples=m.samples[:2],
                    note="libFuzzer mutates bytes, Hypothesis' fuzz_one_input decodes them with the property's own strategy, "
                         "the property's oracle runs inside the target; only pygom.* is instrumented; property_executions "
                         "counts inputs that decoded to a complete case")
        return info, failure
    finally:
        for _m, _s, _side, log, pr in procs:
            if pr.poll() is None:
                pr.kill()
        shutil.rmtree(scratch, ignore_errors=True)


def run_replay(prop_id, path):
    mod = importlib.import_module("pbt.props." + prop_id.lower())
    with open(path) as f:
        body = json.load(f)
    case = body["case"] if "case" in body and "property" in body else body
    rec = Recorder()
    try:
        with quiet():
            if hasattr(mod, "replay"):
                mod.replay(case, rec)
            else:
                mod.oracle(case, rec)
    except PropertyViolation as v:
        known = open_keys(prop_id)
        if v.key in known:
            print("KNOWN-FINDING: property=%s %s [key=%s]" % (prop_id, known[v.key]["what"], v.key))
            return 0
        print("    finding %s: %s" % (v.key, v.message[:600]))
        print("VIOLATION property=%s replay=%s" % (prop_id, path))
        return 1
    except Inconclusive as e:
        print("replay inconclusive: %s" % e)
        return 0
    print("replay passed: %s" % path)
    return 0
