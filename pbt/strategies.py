"""Hypothesis strategies producing IR models (construction, not rejection)."""
from hypothesis import strategies as st

from pbt import ir

STATE_POOL = ["S", "E", "R", "A", "B", "C", "H", "V", "W", "X", "Y", "Z", "U", "L", "D1", "Sv", "Iu"]
STATE_POOL_I = ["S", "I", "R", "E", "A", "H"]           # includes the `I` that defeats the C back-end
# lower-case single letters: the names a hand-written s/i/r model uses, and the names Python code uses for loop variables
# whole words, as in a hand-written model ('Sus', 'Inf', 'Rec'): a name is not a single character
STATE_POOL_WORDS = ["Sus", "Inf", "Rec", "Exp", "Hosp", "Vac", "Dead", "Car"]
# numbered names that share an alphabetic stem (two strains, two age groups)
STATE_POOL_NUM = ["S1", "S2", "I1", "I2", "R1", "R2", "E1", "E2"]
STATE_POOL_LC = ["s", "i", "r", "e", "x", "y", "z", "c", "j", "v"]
PARAM_POOL_LC = ["a", "b", "k", "i", "j", "n", "p", "m"]
PARAM_POOL = ["beta", "gamma", "mu", "kappa", "sigma", "alpha", "rho", "k1", "k2", "b0", "d0", "N",
              "nu", "tau", "eps", "omega", "phi", "delta"]
DERIVED_POOL = ["bt", "foi", "g2", "rr"]


def param_pool(states):
    return PARAM_POOL + [p for p in PARAM_POOL_LC if p not in states]


def sig(x, n=4):
    return float("%.*g" % (n, x))


def fl(lo, hi, n=4):
    return st.floats(lo, hi, allow_nan=False, allow_infinity=False).map(lambda v: sig(v, n))


@st.composite
def coef(draw, params, lo=0.05, hi=3.0):
    """A positive coefficient: a parameter (preferred) or a literal."""
    if params and draw(st.integers(0, 3)) != 0:
        return ir.P(draw(st.sampled_from(params)))
    if draw(st.booleans()):
        return ir.C(draw(st.integers(1, 3)))
    return ir.C(draw(fl(lo, hi)))


@st.composite
def rate_expr(draw, states, params, derived=(), bounded=False, allow_time=True, dep_states=None):
    """One of the rate templates of DESIGN 2.1; all positive for x>=0, theta>0.

    bounded=True restricts to templates with a finite supremum over x >= 0.
    dep_states: states a rate may depend on (default: all)."""
    dep = list(dep_states if dep_states is not None else states)
    k = draw(coef(params))
    kinds = ["const", "sat1", "expdecay0"]
    if dep:
        kinds += ["sat1x", "expdecay"]
        if not bounded:
            kinds += ["linear", "linear", "mass", "massN", "sat2", "sum", "absdiff"]
            if allow_time:
                kinds += ["periodic", "periodic_derived"] if derived else ["periodic"]
    if not dep:
        kinds = ["const"]
    kind = draw(st.sampled_from(kinds))
    X = ir.S(draw(st.sampled_from(dep))) if dep else None
    Y = ir.S(draw(st.sampled_from(dep))) if dep else None
    a = draw(coef(params, 0.05, 1.0))
    if kind == "const":
        return k, kind
    if kind == "linear":
        return ir.mul(k, X), kind
    if kind == "mass":
        return ir.mul(k, X, Y), kind
    if kind == "sum":
        # a top-level sum, written by users without parentheses: 'k*X*Y + a*X'
        return ir.add(ir.mul(k, X, Y), ir.mul(a, X)), kind
    if kind == "massN":
        n = ir.P("N") if "N" in params else ir.C(draw(st.integers(5, 50)))
        return ir.div(ir.mul(k, X, Y), n), kind
    if kind in ("sat1", "sat1x"):
        # k*X/(1+a*X)  (bounded by k/a)
        if X is None:
            return k, "const"
        return ir.div(ir.mul(k, X), ir.add(ir.C(1), ir.mul(a, X))), "sat1"
    if kind == "absdiff":
        # a rate proportional to the distance of a state from a threshold (or from another state): k*X*|Y - c|
        other = ir.C(draw(fl(0.5, 12.0, 3))) if draw(st.booleans()) else ir.mul(a, ir.S(draw(st.sampled_from(dep))))
        return ir.mul(k, X, ir.absdiff(Y, other)), kind
    if kind == "sat2":
        h = draw(coef(params, 0.5, 5.0))
        return ir.div(ir.mul(k, X, Y), ir.add(h, Y)), kind
    if kind == "expdecay":
        # k*X*exp(-a*X2): bounded only if X2 is X; use same state when bounded
        Z = X if bounded else Y
        return ir.mul(k, X, ir.exp(ir.neg(ir.mul(a, Z)))), kind
    if kind == "expdecay0":
        if X is None:
            return k, "const"
        return ir.mul(k, ir.exp(ir.neg(ir.mul(a, X)))), kind
    if kind == "periodic":
        d = ir.C(draw(fl(0.1, 0.9, 2)))
        p = ir.C(draw(st.integers(2, 12)))
        season = ir.add(ir.C(1), ir.mul(d, ir.cos(ir.div(ir.mul(ir.C(2), ir.PI, ir.T), p))))
        return ir.mul(k, season, X), kind
    if kind == "periodic_derived":
        return ir.mul(ir.D(draw(st.sampled_from(list(derived)))), X), kind
    raise AssertionError(kind)


@st.composite
def magnitude(draw, params, derived=(), symbolic=True, integer=False, hi=3):
    if integer:
        return {"int": draw(st.integers(1, hi))}
    c = draw(st.integers(0, 10))
    if c == 10:
        return {"int": 0}            # a zero entry of a stoichiometry table written out as a transition that moves nothing
    if c <= 2:
        return {"int": 1}
    if c <= 4:
        return {"int": draw(st.integers(2, max(2, hi)))}
    if c <= 6 or not symbolic or not params:
        return {"dec": draw(st.sampled_from([0.5, 1.5, 2.5, 0.25, 2.5e-9, 1e-4]))}
    if c == 9 and derived:
        return {"der": draw(st.sampled_from(list(derived)))}
    if c == 8:
        return {"sum": [draw(st.sampled_from(params)), draw(st.integers(1, 2))]}
    return {"par": draw(st.sampled_from(params))}


@st.composite
def state_decl(draw, n, pool=None, allow_range=True, limits="none"):
    """n states as a declaration list.  limits: 'none' | 'mixed' (generate per-state limits)."""
    pool = pool or draw(st.sampled_from([STATE_POOL, STATE_POOL, STATE_POOL_I, STATE_POOL_LC, STATE_POOL_WORDS, STATE_POOL_NUM]))
    decl = []
    use_range = allow_range and n >= 2 and draw(st.integers(0, 4)) == 0
    names = []
    if use_range:
        k = draw(st.integers(2, min(3, n)))
        base = draw(st.sampled_from(["y", "x", "q"]))
        rn = ["%s%d" % (base, i) for i in range(1, k + 1)]
        decl.append({"range": "%s1:%d" % (base, k + 1), "names": rn})
        names += rn
        # a range declaration 'x1:4' also registers the vector under its base name `x` (usable in equations by design):
        # a scalar state called `x` next to it is a name clash of the user's making, outside the input domain
        names.append(base)
    n_rest = n - (len(decl[0]["names"]) if decl else 0)
    rest = draw(st.lists(st.sampled_from([p for p in pool if p not in names]),
                         min_size=n_rest, max_size=n_rest, unique=True))
    for nm in rest:
        decl.append({"name": nm, "lims": None})
    if use_range and draw(st.booleans()):
        decl = decl[1:] + decl[:1]
    return decl


@st.composite
def transitions_for_event(draw, states, params, derived, n_tr, kinds="TBD", integer_mag=False,
                          symbolic=True, mag_hi=3):
    trs = []
    for _ in range(n_tr):
        ks = [k for k in kinds if not (k == "T" and len(states) < 2)]
        kind = draw(st.sampled_from(ks))
        mg = draw(magnitude(params, derived, symbolic=symbolic, integer=integer_mag, hi=mag_hi))
        # when the model declares its states as ODEVariable objects, either end may be named by the object instead of the ID
        ref = {"o": draw(st.booleans()), "d": draw(st.booleans())}
        if kind == "T":
            o, d = draw(st.lists(st.sampled_from(states), min_size=2, max_size=2, unique=True))
            trs.append({"kind": "T", "o": o, "d": d, "mag": mg, "obj_ref": ref})
        elif kind == "B":
            trs.append({"kind": "B", "o": None, "d": draw(st.sampled_from(states)), "mag": mg,
                        "birth_by": draw(st.sampled_from(["origin", "destination"])), "obj_ref": ref})
        else:
            trs.append({"kind": "D", "o": draw(st.sampled_from(states)), "d": None, "mag": mg, "obj_ref": ref})
    return trs


@st.composite
def derived_params(draw, states, params, n):
    out = []
    for i in range(n):
        name = DERIVED_POOL[i]
        k = draw(coef(params))
        choice = draw(st.integers(0, 2))
        if choice == 0:
            d = ir.C(draw(fl(0.1, 0.9, 2)))
            p = ir.C(draw(st.integers(2, 12)))
            e = ir.mul(k, ir.add(ir.C(1), ir.mul(d, ir.cos(ir.div(ir.mul(ir.C(2), ir.PI, ir.T), p)))))
        elif choice == 1 and out:
            e = ir.mul(k, ir.D(out[-1]["name"]))
        else:
            e = ir.div(k, ir.add(ir.C(1), draw(coef(params))))
        out.append({"name": name, "expr": e})
    return out


@st.composite
def general_model(draw, max_states=5, max_params=5, max_events=5, min_events=0, allow_odes=True,
                  allow_derived=True, kinds="TBD", min_params=1, allow_range=True, min_states=1, state_pool=None,
                  lower_case_params=True):
    """Unconstrained model of C01/C03/C12/C13 (positive rates, arbitrary growth)."""
    n_s = draw(st.integers(min_states, max_states))
    n_p = draw(st.integers(min_params, max_params))
    decl = draw(state_decl(n_s, pool=state_pool, allow_range=allow_range))
    states = []
    for d in decl:
        states += d["names"] if "range" in d else [d["name"]]
    params = draw(st.lists(st.sampled_from(param_pool(states) if lower_case_params else PARAM_POOL),
                           min_size=n_p, max_size=n_p, unique=True))
    derived = draw(derived_params(states, params, draw(st.integers(0, 2)))) if (allow_derived and params) else []
    dnames = [d["name"] for d in derived]
    n_e = draw(st.integers(min_events, max_events))
    events = []
    for _ in range(n_e):
        rate, kind = draw(rate_expr(states, params, dnames))
        n_tr = draw(st.sampled_from([1, 1, 1, 2, 2, 3]))
        events.append({"rate": rate, "rate_kind": kind,
                       "trans": draw(transitions_for_event(states, params, dnames, n_tr, kinds=kinds))})
    odes = []
    if allow_odes:
        for _ in range(draw(st.sampled_from([0, 0, 1, 2]))):
            e, _k = draw(rate_expr(states, params, dnames))
            if draw(st.booleans()):
                e = ir.neg(e)
            odes.append({"state": draw(st.sampled_from(states)), "expr": e})
    return {"state_decl": decl, "state_style": draw(st.sampled_from(["list", "list", "space", "comma", "tuples", "odevar"])),
            "params": params, "param_style": draw(st.sampled_from(["list", "list", "space", "comma"])),
            "derived": derived, "events": events, "odes": odes,
            # states declared through a range may be spelt y[0], y[1], ... in the equation strings
            "bracket_refs": any("range" in d for d in decl) and draw(st.booleans())}


@st.composite
def point(draw, m, x_lo=0.1, x_hi=20.0, th_lo=0.05, th_hi=5.0):
    n_s = len(ir.state_names(m))
    # mostly ordinary magnitudes; sometimes all states tiny (proportions of a large population, concentrations) or huge (head
    # counts of a country), where a guard with an absolute threshold or a clipped intermediate would show
    scale = draw(st.sampled_from([1.0, 1.0, 1.0, 1.0, 1.0, 1e-5, 1e5]))
    x = [sig(draw(fl(x_lo, x_hi)) * scale, 4) for _ in range(n_s)]
    t = draw(fl(0.0, 20.0))
    theta = [draw(fl(th_lo, th_hi)) for _ in m["params"]]
    return {"x": x, "t": t, "theta": theta}


def model_features(m):
    ev = m.get("events", [])
    feats = set()
    if len(ev) >= 2:
        feats.add("multi-event")
    if any(len(e["trans"]) > 1 for e in ev):
        feats.add("multi-transition-event")
    if any(("par" in t["mag"] or "der" in t["mag"] or "sum" in t["mag"]) for e in ev for t in e["trans"]):
        feats.add("symbolic-magnitude")
    if m.get("derived"):
        feats.add("derived-param")
    if m.get("odes") and ev:
        feats.add("ode-term+events")
    if any("range" in d for d in m["state_decl"]):
        feats.add("range-states")
    if any(t["kind"] == "B" and t.get("birth_by") == "origin" for e in ev for t in e["trans"]):
        feats.add("birth-by-origin")
    for e in ev:
        if e.get("rate_kind"):
            feats.add("rate:" + e["rate_kind"])
    return feats


# ------------------------------------------------------------------ bounded-rate event models
LIMIT_CHOICES = ["default", "zero_none", "lo_none", "none_hi", "lo_hi", "none_none", "neg_zero", "none_zero"]


@st.composite
def event_model(draw, max_states=5, max_events=5, kinds="TBD", limits=False, transition_only=False,
                mag_hi=3, allow_range=True, min_states=1, min_events=1, symbolic_rates=True):
    """Event-only model with integer magnitudes whose propensities are non-negative on every state the
    limits allow and whose births are bounded (DESIGN 2.1, 'bounded-rate' variant)."""
    n_s = draw(st.integers(max(min_states, 2 if transition_only else 1), max_states))
    decl = draw(state_decl(n_s, allow_range=allow_range))
    states = []
    for d in decl:
        states += d["names"] if "range" in d else [d["name"]]
    lim_kind = {}
    if limits:
        for d in decl:
            if "range" in d and draw(st.booleans()):
                for nm in d["names"]:
                    lim_kind[nm] = "default"
                continue
            k = draw(st.sampled_from(LIMIT_CHOICES))
            for nm in (d["names"] if "range" in d else [d["name"]]):
                lim_kind[nm] = k          # a range-style name carries ONE limits tuple for all the states it expands to
            if k == "zero_none":
                d["lims"] = [0, None]
            elif k == "lo_none":
                d["lims"] = [draw(st.integers(1, 3)), None]
            elif k == "none_hi":
                d["lims"] = [None, draw(st.integers(8, 40))]
            elif k == "lo_hi":
                lo = draw(st.integers(0, 3))
                d["lims"] = [lo, lo + draw(st.integers(3, 30))]
            elif k == "none_none":
                d["lims"] = [None, None]
            elif k == "neg_zero":
                d["lims"] = [-draw(st.integers(2, 6)), 0]         # a state living on the non-positive integers (a deficit)
            elif k == "none_zero":
                d["lims"] = [None, 0]
    else:
        lim_kind = {s: "default" for s in states}
    # rates may depend only on states that can never go negative
    dep = [s for s in states if lim_kind[s] in ("default", "zero_none", "lo_none", "lo_hi")]
    n_p = draw(st.integers(1, 4))
    params = draw(st.lists(st.sampled_from(param_pool(states)), min_size=n_p, max_size=n_p, unique=True))
    n_e = draw(st.integers(min_events, max_events))
    events = []
    for _ in range(n_e):
        n_tr = draw(st.sampled_from([1, 1, 1, 2, 2, 3]))
        ks = "T" if transition_only else kinds
        trs = draw(transitions_for_event(states, params, (), n_tr, kinds=ks, integer_mag=True, mag_hi=mag_hi))
        # a transfer out of a state that has no lower limit is an unlimited source, i.e. a birth as far as growth goes;
        # a death out of such a state removes nothing that could run out
        def _no_lower(nm):
            return lim_kind[nm] in ("none_hi", "none_none", "none_zero")
        net = sum((t["mag"]["int"] if t["kind"] == "B" or (t["kind"] == "T" and _no_lower(t["o"])) else
                   -t["mag"]["int"] if (t["kind"] == "D" and not _no_lower(t["o"])) else 0) for t in trs)
        unbounded_up = any(lim_kind[t["d"]] in ("default", "zero_none", "lo_none", "none_none")
                           for t in trs if t["kind"] == "B")
        bounded = net > 0 or unbounded_up
        rate, kind = draw(rate_expr(states, params if symbolic_rates else [], (), bounded=bounded,
                                    allow_time=False, dep_states=dep))
        events.append({"rate": rate, "rate_kind": kind, "trans": trs})
    return {"state_decl": decl, "state_style": draw(st.sampled_from(["list", "list", "space", "comma", "tuples", "odevar"]))
            if not limits else "list",
            "params": params, "param_style": "list", "derived": [], "events": events, "odes": []}


def _rate_bound(m, theta, level):
    x = [level] * len(ir.state_names(m))
    try:
        return float(sum(abs(r) for r in ir.reference_float(m, x, 0.0, theta)["rates"]))
    except Exception:
        return float("inf")


@st.composite
def stochastic_setup(draw, m, x_hi=40, t_max=10.0, target_events=120, hard_events=3000):
    """Integer initial state inside the limits, parameters, NumPy-scalar t0 and a horizon sized so that the
    expected number of events stays moderate."""
    names = ir.state_names(m)
    lims = ir.state_limits(m)
    x0 = []
    for (lo, hi) in lims:
        a = 0 if lo is None else int(lo)
        b = x_hi if hi is None else int(hi)
        if lo is None:
            a = min(a, b)
        x0.append(draw(st.integers(a, max(a, b))))
    theta = [draw(fl(0.05, 2.0)) for _ in m["params"]]
    # a slow clock: the same process with every parametric rate nine orders of magnitude smaller (time in nanoseconds' worth
    # of units) over a correspondingly longer horizon
    slow = draw(st.sampled_from([1.0, 1.0, 1.0, 1.0, 1.0, 1.0, 1e-9]))
    if slow != 1.0:
        # only for models whose every rate scales with the parameters (a literal coefficient would leave one process on the
        # fast clock and wreck the sizing of the horizon)
        probe = [v + 1 for v in x0]
        try:
            r_fast = ir.reference_float(m, probe, 0.0, theta)["rates"]
            r_slow = ir.reference_float(m, probe, 0.0, [v * slow for v in theta])["rates"]
            # every rate must be exactly proportional to the parameters (constant, linear, mass-action templates): a saturating
            # k*X/(1+a*X) or a decaying exponential changes regime when its coefficients shrink, and the bound that sizes
            # the horizon no longer holds
            ok = all(a > 0 and abs(b - slow * a) <= 1e-6 * slow * abs(a) for a, b in zip(r_fast, r_slow))
        except Exception:
            ok = False
        if ok:
            theta = [sig(v * slow, 4) for v in theta]
            t_max = t_max / slow
        else:
            slow = 1.0
    t0 = draw(st.sampled_from([0.0, 0.0, 1.0, 2.5, 2020.0]))
    r0 = float(sum(ir.reference_float(m, x0, t0, theta)["rates"]))
    bound = _rate_bound(m, theta, sum(abs(v) for v in x0) + 30)
    horizon = t_max
    if r0 > 0:
        horizon = min(horizon, target_events / r0)
    if bound > 0:
        horizon = min(horizon, hard_events / bound)
    horizon = max(sig(horizon * draw(st.sampled_from([0.3, 1.0, 1.0])), 3), 1e-3)
    out = {"x0": x0, "theta": theta, "t0": t0, "horizon": horizon, "np_seed": draw(st.integers(0, 2 ** 32 - 1)),
           # whole-number populations handed over as ints, as floats (50.0) or as a float array
           "x0_form": draw(st.sampled_from(["int", "int", "int", "float", "float_array"]))}
    if slow != 1.0:
        out["clock"] = slow           # fixed leap sizes and literal rates added later have to be put on the same clock
    return out


# ------------------------------------------------------------------ benign ODE models (C02, C06, C07, C16-C18, C20)
@st.composite
def ode_model(draw, max_states=4, allow_time=True, families=("chain", "epidemic", "bounded"), min_params=1,
              additive_params=False):
    """Models whose solutions stay bounded and well-conditioned on short horizons, built from the same IR.

    chain    : linear progression with optional back-flow, inflow and linear removal (globally Lipschitz)
    epidemic : SIS/SIR/SEIR-like mass action divided by a population constant, optional waning and forcing
    bounded  : saturating / decaying-exponential interactions with constant inflow and linear removal
    additive_params=True builds 'class A' models for C20: parameters enter only additively (constant inflow
    rates and nothing else), every state-dependent rate has literal coefficients.
    """
    fam = draw(st.sampled_from(list(families)))
    n_s = draw(st.integers(2 if fam != "bounded" else 1, max_states))
    pool = draw(st.sampled_from([STATE_POOL, STATE_POOL_I, STATE_POOL_LC, STATE_POOL_WORDS]))
    states = draw(st.lists(st.sampled_from(pool), min_size=n_s, max_size=n_s, unique=True))
    n_p = draw(st.integers(min_params, 4))
    params = draw(st.lists(st.sampled_from([p for p in param_pool(states) if p != "N"]), min_size=n_p, max_size=n_p, unique=True))
    used = []

    def par():
        if additive_params:
            return ir.C(draw(fl(0.2, 1.5, 3)))
        p = draw(st.sampled_from(params))
        used.append(p)
        return ir.P(p)

    def forcing(e):
        if allow_time and draw(st.integers(0, 4)) == 0:
            d = ir.C(draw(fl(0.1, 0.6, 2)))
            p = ir.C(draw(st.integers(2, 8)))
            return ir.mul(e, ir.add(ir.C(1), ir.mul(d, ir.cos(ir.div(ir.mul(ir.C(2), ir.PI, ir.T), p)))))
        return e

    events = []

    def T_(o, d, rate, mag=1):
        events.append({"rate": rate, "rate_kind": "x", "trans": [{"kind": "T", "o": o, "d": d, "mag": {"int": mag}}]})

    def B_(d, rate):
        events.append({"rate": rate, "rate_kind": "x", "trans": [{"kind": "B", "o": None, "d": d, "mag": {"int": 1},
                                                                 "birth_by": draw(st.sampled_from(["origin", "destination"]))}]})

    def D_(o, rate):
        events.append({"rate": rate, "rate_kind": "x", "trans": [{"kind": "D", "o": o, "d": None, "mag": {"int": 1}}]})

    if fam == "chain":
        for a, b in zip(states[:-1], states[1:]):
            T_(a, b, forcing(ir.mul(par(), ir.S(a))))
        if draw(st.booleans()):
            T_(states[-1], states[0], ir.mul(par(), ir.S(states[-1])))
        if draw(st.booleans()) or additive_params:
            B_(states[0], ir.P(draw(st.sampled_from(params))) if additive_params else par())
        if draw(st.booleans()):
            dst = draw(st.sampled_from(states))
            D_(dst, ir.mul(par(), ir.S(dst)))
    elif fam == "epidemic":
        Ntot = ir.C(draw(st.sampled_from([10, 50, 100])))
        s, i = states[0], states[1 if n_s == 2 else draw(st.integers(1, n_s - 1))]
        first = states[1]
        T_(s, first, forcing(ir.div(ir.mul(par(), ir.S(s), ir.S(i)), Ntot)))
        for a, b in zip(states[1:-1], states[2:]):
            T_(a, b, ir.mul(par(), ir.S(a)))
        if draw(st.booleans()):
            T_(states[-1], s, ir.mul(par(), ir.S(states[-1])))
        if additive_params:
            B_(s, ir.P(draw(st.sampled_from(params))))
    else:
        for a in states:
            B_(a, ir.P(draw(st.sampled_from(params))) if additive_params else par())
            kind = draw(st.sampled_from(["lin", "sat", "quad"]))
            if kind == "lin":
                D_(a, ir.mul(par(), ir.S(a)))
            elif kind == "sat":
                D_(a, ir.div(ir.mul(par(), ir.S(a), ir.S(a)), ir.add(ir.C(1), ir.S(a))))
            else:
                D_(a, ir.mul(ir.C(draw(fl(0.02, 0.2, 2))), ir.S(a), ir.S(a)))
        if n_s >= 2:
            a, b = states[0], states[1]
            T_(a, b, ir.div(ir.mul(par(), ir.S(a)), ir.add(ir.C(1), ir.mul(ir.C(draw(fl(0.1, 1.0, 2))), ir.S(b)))))
    if additive_params:
        # make sure every parameter appears (additively)
        seen = set()
        for ev in events:
            seen |= ir.atoms(ev["rate"], "p")
        for p in params:
            if p not in seen:
                B_(draw(st.sampled_from(states)), ir.P(p))
    else:
        seen = set()
        for ev in events:
            seen |= ir.atoms(ev["rate"], "p")
        for p in params:
            if p not in seen:
                dst = draw(st.sampled_from(states))
                D_(dst, ir.mul(ir.P(p), ir.S(dst)))
    decl = [{"name": s, "lims": None} for s in states]
    return {"state_decl": decl, "state_style": draw(st.sampled_from(["list", "space", "comma", "odevar"])),
            "params": params, "param_style": draw(st.sampled_from(["list", "comma"])),
            "derived": [], "events": events, "odes": [], "family": fam}


@st.composite
def ode_setup(draw, m, n_times=(1, 12), t_max=6.0, uniform=None):
    n_s = len(ir.state_names(m))
    x0 = [draw(fl(0.5, 15.0, 3)) for _ in range(n_s)]
    theta = [draw(fl(0.1, 1.5, 3)) for _ in m["params"]]
    # calendar-style origins (a year, a spreadsheet date serial, a day ordinal) make |t| large against the output spacing
    t0 = draw(st.sampled_from([0.0, 0.0, 1.0, 3.5, 2020.0, 44197.0, 737850.0]))
    n = draw(st.integers(*n_times))
    if uniform is None:
        uniform = draw(st.booleans())
    if uniform:
        step = draw(fl(0.05, t_max / max(n, 1), 3))
        rel = [sig(step * (i + 1), 6) for i in range(n)]
    else:
        gaps = [draw(st.sampled_from([1e-3, 0.01, 0.1, 0.3, 0.7, 1.0, 2.0])) for _ in range(n)]
        scale = min(1.0, t_max / sum(gaps))
        rel, acc = [], 0.0
        for g in gaps:
            acc += g * scale
            rel.append(sig(acc, 6))
        rel = sorted(set(rel))
    return {"x0": x0, "theta": theta, "t0": t0, "grid_rel": rel}


@st.composite
def integer_grid(draw, su, min_n=1, max_n=6):
    """Re-time a setup so that the requested times are whole numbers (day numbers) while the initial time may be
    fractional: returns a copy of `su` with t0 in {old, 0.5, 2.5, 2.75} and grid_rel such that t0 + rel is integral."""
    import math
    t0 = draw(st.sampled_from([su["t0"], 0.5, 2.5, 2.75, 0.25]))
    n = max(min_n, min(max_n, len(su["grid_rel"])))
    steps = [draw(st.sampled_from([1, 1, 1, 2])) for _ in range(n)]
    base, acc, rel = math.floor(t0), 0, []
    for k in steps:
        acc += k
        rel.append(float((base + acc) - t0))
    return dict(su, t0=t0, grid_rel=rel)


@st.composite
def parametrise_magnitudes(draw, m, su):
    """Turn the integer magnitude of 1-2 transfer / death transitions into a parameter that carries the same whole number
    (the documentation's 'magnitude given by a parameter'), and propose a second parameter vector in which those
    parameters take other whole numbers 1..3.  Returns (model, setup, theta_alt) or None when nothing qualifies."""
    import copy
    m = copy.deepcopy(m)
    spots = [(i, j) for i, ev in enumerate(m["events"]) for j, tr in enumerate(ev["trans"])
             if tr["kind"] in ("T", "D") and "int" in tr["mag"]]
    if not spots:
        return None
    chosen = draw(st.lists(st.sampled_from(spots), min_size=1, max_size=min(2, len(spots)), unique=True))
    theta, theta_alt = list(su["theta"]), list(su["theta"])
    for n, (i, j) in enumerate(chosen):
        name = "kmag%d" % (n + 1)
        k = int(m["events"][i]["trans"][j]["mag"]["int"])
        m["events"][i]["trans"][j]["mag"] = {"par": name}
        m["params"] = m["params"] + [name]
        theta.append(float(k))
        theta_alt.append(float(draw(st.sampled_from([v for v in (1, 2, 3) if v != k]))))
    return m, dict(su, theta=theta), theta_alt

