"""Offline bootstrap: third-party tooling into /verif/.deps, extension build, oracle self-tests."""
import sys
import traceback


def main():
    try:
        from pbt import env
        env.ensure_deps()
        try:
            env.ensure_deps(extra=(("atheris", "atheris"),))
            print("atheris available")
        except Exception as e:      # atheris is only used by thorough-tier campaigns
            print("atheris not available (%s); coverage-guided campaigns will be skipped" % (e,))
        rebuilt = env.ensure_ext()
        print("extension %s" % ("rebuilt" if rebuilt else "up to date"))
        env.activate(build=False)
        import importlib
        import pkgutil
        import pbt.props
        from pbt import selftest
        n = 0
        for m in pkgutil.iter_modules(pbt.props.__path__):
            mod = importlib.import_module("pbt.props." + m.name)
            selftest.run_for(mod.ID)
            n += len(getattr(mod, "SELFTESTS", []))
        print("oracle self-tests passed (%d)" % n)
        return 0
    except BaseException:
        sys.stderr.write("SETUP ERROR:\n" + traceback.format_exc())
        return 2


if __name__ == "__main__":
    sys.exit(main())
