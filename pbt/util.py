"""Small comparison helpers shared by the property modules."""
import numpy as np

from pbt import ir, render
from pbt.harness import PropertyViolation


def arr(v, shape, what, key, case):
    try:
        a = np.asarray(v, float)
    except Exception as e:
        raise PropertyViolation(key + "/type", "%s is not numeric: %r" % (what, e), case)
    n = int(np.prod(shape))
    if a.size != n:
        raise PropertyViolation(key + "/size", "%s has %d entries (shape %s), expected shape %s" % (
            what, a.size, a.shape, shape), case)
    return a.reshape(shape)


def cmp(got, ref, what, key, case, rtol=1e-9, atol=1e-12, terms=0.0):
    """terms: (array of) the sum of the absolute values of the terms added up into each entry of the reference; the reference
    (and the code under test, if it evaluates the same sum) carries rounding noise of a few eps times that, so an entry is
    judged no finer than 4e-15*terms."""
    got = np.asarray(got, float)
    ref = np.asarray(ref, float)
    scale = np.maximum(np.abs(ref), np.abs(got))
    # the absolute floor scales with the largest entry: an entry that is zero by cancellation of terms of size M carries
    # rounding noise of order 1e-16*M in the reference itself
    floor = atol * (1 + (float(np.abs(ref).max()) if ref.size else 0.0)) + 4e-15 * np.asarray(terms, float)
    bad = (np.abs(got - ref) > rtol * scale + floor) | ~np.isfinite(got)
    if bad.any():
        i = tuple(int(k) for k in np.argwhere(bad)[0])
        raise PropertyViolation(key, "%s differs at %s: model %.15g, reference %.15g (max abs diff %.3g)" % (
            what, i, got[i], ref[i], float(np.nanmax(np.abs(got - ref)))), case)


def pretty(m):
    return {"states": render.state_argument(m), "params": render.param_argument(m),
            "derived": [(d["name"], ir.to_str(d["expr"])) for d in m.get("derived", [])],
            "events": [{"rate": ir.to_str(e["rate"]),
                        "transitions": ["%s %s->%s x%s" % (t["kind"], t["o"], t["d"], ir.mag_str(t["mag"]))
                                        for t in e["trans"]]}
                       for e in m.get("events", [])],
            "odes": [(o["state"], ir.to_str(o["expr"])) for o in m.get("odes", [])]}


def call(key, case, fn, *a, **kw):
    """Call code under test where the property promises a result: an exception is a violation."""
    try:
        return fn(*a, **kw)
    except PropertyViolation:
        raise
    except Exception as e:
        raise PropertyViolation("%s/raises-%s" % (key, type(e).__name__),
                                "%s raised %s: %s" % (getattr(fn, "__name__", fn), type(e).__name__, str(e)[:300]), case)


def conv_fn(model, name, conv):
    """The evaluator `name` in the calling convention `conv`: 'state-first' f(x, t, ...) or 'time-first' f_T(t, x, ...)
    (the wrappers handed to scipy integrators)."""
    if conv == "time-first":
        inner = getattr(model, name + "_T")

        def f(x, t, *extra):
            return inner(t, x, *extra)
        f.__name__ = name + "_T"
        return f
    return getattr(model, name)
