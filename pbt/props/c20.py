"""C20 - curvature information matches the cost it is meant to describe."""
import numpy as np
from hypothesis import strategies as st

from pbt import ir, lossgen, refsolve, jets, refdist, strategies as S
from pbt.harness import PropertyViolation, Inconclusive
from pbt.util import call
from pbt.props.c07 import reference_gradient

ID = "C20"
TITLE = "Curvature information matches the cost it is meant to describe"
RULE = ("Square-loss cases from the C06/C07 generator (benign ODE models, observed-state selections in any order, target_param subsets in "
        "any order). Part 'jtj' (weights allowed): jtj(theta) == sum_i (W_i o S_i)^T (W_i o S_i) with reference sensitivities S_i of the observed "
        "states w.r.t. the free parameters (own variational equations), rtol 1e-5; symmetric; positive semi-definite. Part 'hessian' (unit "
        "weights): hessian(theta) == central difference of the reference gradient (rtol 1e-4), and symmetric. The Hessian oracle is "
        "partitioned by a predicate computed from the jets: class A = models with d2f/dx dtheta == 0 and d2f/dtheta2 == 0 (generated on purpose: "
        "parameters enter additively), where the implemented forward-forward system is complete; class B = all others, where the open "
        "finding C20/hessian-value/classB-mixed-terms applies. Non-trivial = >=2 free parameters and the exact Hessian differs from 2*JTJ by > 1%; "
        "distinct by case hash.")
ASSUMPTIONS = [
    "hessian is generated with unit weights only (the statement's '(weighted)' qualifies jtj)",
    "class B Hessians are compared too, but a mismatch there is the listed open finding, keyed separately so that class A errors and symmetry errors are still reported",
]
BUDGET = {"quick": [("jtj", 40)] * 2 + [("hessianA", 25), ("hessianB", 20)],
          "thorough": [("jtj", 350)] * 6 + [("hessianA", 200)] * 6 + [("hessianB", 150)] * 4}
TECHNIQUE = "property-based testing (Hypothesis @given) against reference sensitivities and a finite-difference Hessian of the reference gradient, with an input-class partition for the known incomplete second-order system"
LEVEL_TEXT = ("Exploration: Gauss-Newton matrices and Hessians of generated models compared with independently computed references; "
              "an input predicate separates models where the implementation is meant to be exact.")
LEVEL_NOTE = "Hessian reference is a central difference (h ~ 1e-4) of a gradient solved at rtol 1e-11: relative accuracy ~1e-6, compared at 1e-4."
DESIGN_REF = "DESIGN.md section 3 (C20), section 4 (F9a, F9b)"


def strategy(tier, mode=None):
    @st.composite
    def case(draw):
        if mode == "hessianA":
            c = draw(lossgen.loss_case(kinds=["Square"], weights=False, target_param="any-order", max_states=3, n_times=(3, 6),
                                       additive=True, families=("chain", "bounded"), allow_time=False))
        elif mode == "hessianB":
            c = draw(lossgen.loss_case(kinds=["Square"], weights=False, target_param="any-order", max_states=3, n_times=(3, 6), catalogue=1))
        else:
            c = draw(lossgen.loss_case(kinds=["Square"], weights=True, target_param="any-order", max_states=3, n_times=(2, 8), catalogue=1))
        c["part"] = "jtj" if mode in (None, "jtj") else "hessian"
        if c["part"] == "jtj" and c["model"].get("family") in ("chain", "epidemic") and draw(st.integers(0, 2)) == 0:
            # amounts measured in small units: states (and hence sensitivities) of order 1e-5, JTJ entries of order 1e-10
            c["setup"] = dict(c["setup"], x0=[S.sig(v * 1e-5, 4) for v in c["setup"]["x0"]])
            c["x0_eval"] = [S.sig(v * 1e-5, 4) for v in c["x0_eval"]]
            c["small_scale"] = True
        if c["part"] == "jtj":
            c["precalls"] = [{"fn": draw(st.sampled_from(["fisher_information", "gradient", "jtj", "sensitivity-full"])),
                              "factor": draw(st.sampled_from([0.8, 1.0, 1.25]))} for _ in range(draw(st.sampled_from([0, 0, 1, 2])))]
        if c["part"] == "jtj" and c["target_param"] is not None and len(c["target_param"]) < len(c["model"]["params"]) \
                and draw(st.booleans()):
            # jtj(theta), then the user changes a parameter that is NOT among this object's targets on the shared model (such
            # parameters live in the model by design), then jtj(theta) again with the very same theta: the second answer
            # belongs to the new value
            c["foreign_write"] = {"which": draw(st.integers(0, 3)), "factor": draw(st.sampled_from([0.5, 0.7, 1.5, 2.0]))}
        c["spread"] = None
        if c["part"] == "jtj" and not isinstance(c["weights"], list) and draw(st.integers(0, 2)) > 0:
            # the weighted JTJ is this part's subject: mostly non-scalar weights (per state, or per observation and state)
            n, p = len(c["setup"]["grid_rel"]), len(c["obs"])
            if draw(st.booleans()) and p >= 2:
                c["weights"] = [draw(S.fl(0.2, 2.5, 3)) for _ in range(p)]
            else:
                c["weights"] = [[draw(S.fl(0.2, 2.5, 3)) for _ in range(p)] for _ in range(n)]
        return c
    return case()


def _class_a(case, traj):
    m = case["model"]
    for x in traj[:: max(1, len(traj) // 3)]:
        d = ir.derivatives(m, list(x), case["setup"]["t0"], lossgen.full_theta(case, lossgen.free_theta(case)))
        if np.abs(d["Hpx"]).max() > 0 or np.abs(d["Hpp"]).max() > 0:
            return False
    return True


def oracle(case, rec):
    m, su = case["model"], case["setup"]
    names = ir.state_names(m)
    y, _ = lossgen.make_data(case)
    n, p = y.shape
    free = lossgen.free_theta(case)
    nf = len(free)
    model, obj = call("C20/construct", case, lossgen.build, case, y)
    times = lossgen.times_of(case)
    cols = lossgen.obs_cols(case)
    th = lossgen.full_theta(case, free)
    tp = case["target_param"] or m["params"]
    fw = case.get("foreign_write") if case["part"] == "jtj" else None
    if fw:
        nontarget = [q for q in m["params"] if q not in tp]
        fw_name = nontarget[fw["which"] % len(nontarget)]
        fw_value = S.sig(th[m["params"].index(fw_name)] * fw["factor"], 5)
        th = list(th)
        th[m["params"].index(fw_name)] = fw_value
    X, Sp = refsolve.reference_sensitivities(m, th, su["x0"], su["t0"], times)
    pidx = [m["params"].index(q) for q in tp]
    rec.label("part:" + case["part"], "free:%d" % nf, "obs:%d" % p)
    if case.get("small_scale"):
        rec.label("states:order-1e-5")
    if case["part"] == "jtj":
        wf = case["weights"]
        rec.label("weights:" + ("none" if wf is None else "scalar" if not isinstance(wf, list) else
                                "per-state" if not isinstance(wf[0], list) else "matrix"))
        if isinstance(wf, list) and p >= 2 and nf >= 2:
            rec.label("jtj:nonscalar-weights+2obs+2free")
    if case["part"] == "jtj":
        W = lossgen.broadcast(case["weights"], n, p, 1.0)
        want = np.zeros((nf, nf))
        for i in range(n):
            Si = Sp[i][np.ix_(cols, pidx)] * W[i][:, None]
            want += Si.T.dot(Si)
        # other curvature / gradient calls made earlier on the same loss object (at other parameters) must leave nothing behind
        for pc in case.get("precalls") or []:
            th_pc = np.array([v * pc["factor"] for v in free])
            rec.label("precall:" + pc["fn"])
            try:
                if pc["fn"] == "fisher_information":
                    obj.fisher_information(th_pc)
                elif pc["fn"] == "gradient":
                    obj.gradient(th_pc)
                elif pc["fn"] == "jtj":
                    obj.jtj(th_pc)
                else:
                    obj.sensitivity(th_pc, True)
            except Exception as e:
                # the earlier call is only there to leave state behind; whether IT works is not this property's subject
                # (fisher_information raises a broadcasting ValueError with several observed states on the unchanged tree)
                rec.label("precall-raised:%s:%s" % (pc["fn"], type(e).__name__))
        if fw:
            rec.label("jtj:same-theta-after-foreign-write-of-a-non-target-parameter")
            call("C20/jtj-first", case, obj.jtj, np.array(free))
            model.parameters = {fw_name: fw_value}
        got = np.asarray(call("C20/jtj", case, obj.jtj, np.array(free)), float)
        if got.shape != want.shape:
            raise PropertyViolation("C20/jtj/shape", "jtj has shape %s for %d free parameters" % (got.shape, nf), case)
        scale = np.abs(want).max() + 1e-300
        # absolute floor: sensitivities carry a solver error of ~1e-7 relative to the largest state; where the true
        # sensitivities vanish (a model started at an equilibrium, observation times ~1e-3) the products are pure rounding noise
        floor = n * p * (1e-7 * (1 + float(np.abs(X).max()))) ** 2 * float(np.max(W)) ** 2
        if np.abs(got - want).max() > 1e-5 * scale + floor:
            raise PropertyViolation("C20/jtj/value", "jtj differs from sum of outer products of weighted reference sensitivities by %.3g (scale %.3g)" % (
                np.abs(got - want).max(), scale), case)
        if np.abs(got - got.T).max() > 1e-12 * scale:
            raise PropertyViolation("C20/jtj/symmetry", "jtj is not symmetric", case)
        ev = np.linalg.eigvalsh((got + got.T) / 2)
        if ev.min() < -1e-9 * max(ev.max(), 1e-300):
            raise PropertyViolation("C20/jtj/psd", "jtj has eigenvalue %.3g" % ev.min(), case)
        if nf >= 2 and (case["weights"] is not None or p >= 2):
            rec.mark_nontrivial(case, dict(lossgen.describe(case), part="jtj"))
        return
    # ---- Hessian
    class_a = _class_a(case, X)
    rec.label("class:" + ("A" if class_a else "B"))
    g0, _yh, gscale = reference_gradient(case, y, free, list(su["x0"]), False)
    H = np.zeros((nf, nf))
    for k in range(nf):
        h = 1e-4 * max(1.0, abs(free[k]))
        fp, fm = list(free), list(free)
        fp[k] += h
        fm[k] -= h
        gp = reference_gradient(case, y, fp, list(su["x0"]), False)[0]
        gm = reference_gradient(case, y, fm, list(su["x0"]), False)[0]
        H[:, k] = (gp - gm) / (2 * h)
    if np.abs(H - H.T).max() > 1e-4 * (np.abs(H).max() + 1e-300):
        raise Inconclusive("finite-difference Hessian not symmetric enough")
    H = (H + H.T) / 2
    got = np.asarray(call("C20/hessian", case, obj.hessian, np.array(free)), float)
    if got.shape != H.shape:
        raise PropertyViolation("C20/hessian/shape", "hessian has shape %s for %d free parameters" % (got.shape, nf), case)
    scale = np.abs(H).max() + 1e-300
    if np.abs(got - got.T).max() > 1e-8 * max(scale, np.abs(got).max()):
        raise PropertyViolation("C20/hessian/symmetry", "hessian is not symmetric (max asymmetry %.3g)" % np.abs(got - got.T).max(), case)
    jtj2 = np.zeros((nf, nf))
    for i in range(n):
        Si = Sp[i][np.ix_(cols, pidx)]
        jtj2 += 2 * Si.T.dot(Si)
    second = np.abs(H - jtj2).max()
    floor = 2 * n * p * (1e-7 * (1 + float(np.abs(X).max()))) ** 2
    if np.abs(got - H).max() > 1e-4 * scale + 1e-6 * second + floor:
        key = "C20/hessian-value/classA" if class_a else "C20/hessian-value/classB-mixed-terms"
        raise PropertyViolation(key, "hessian differs from the derivative of the gradient by %.3g (scale %.3g; second-order part %.3g): got %s want %s" % (
            np.abs(got - H).max(), scale, second, np.array2string(got, precision=6), np.array2string(H, precision=6)), case)
    if nf >= 2 and second > 0.01 * scale:
        rec.mark_nontrivial(case, dict(lossgen.describe(case), part="hessian", cls="A" if class_a else "B"))


SELFTESTS = [jets.selftest, refsolve.selftest, refdist.selftest]
