"""C15 - gridded stochastic output agrees with the underlying path."""
import numpy as np
from hypothesis import strategies as st

from pbt import ir, strategies as S, stoch
from pbt.harness import PropertyViolation, Inconclusive
from pbt.util import pretty, call

ID = "C15"
TITLE = "Gridded stochastic output agrees with the underlying path"
RULE = ("Models, initial states, parameters and seeds as in C04; output grids of 3-10 points starting at t0 or (1 case in 4, the t[1::] convention of the library's own tests) "
        "after t0 (list, tuple or array; uniform or not; the last point possibly far beyond extinction). In a third of the cases 1-2 magnitudes are carried by whole-number parameters and a second gridded call follows on the same object after the parameters were re-assigned (checked against the state-change matrix of the new values). Oracle, exact mode: differential against the same "
        "random stream - re-seed and run solve_stochast(grid[-1], n, exact=True, full_output=True) to obtain the raw path (same loop, "
        "same draws), then row k must equal the raw state at the last event time <= t_k, the counts of interval k must equal the "
        "per-transition sums of raw counts with event time in (t_k, t_{k+1}], hence X[k+1]-X[k] == V*counts[k]; shape (len(grid), nS), "
        "the default call without full_output on the same stream returns exactly the state arrays (1 case in 3); first row x0 when the grid starts at t0 (otherwise row 0 is decided by the row lookup like every other row; events before the first grid time belong to no interval). Tau mode: shape, first row, each row between the neighbouring raw states (interpolation), counts rows sum to at most the raw totals. "
        "Non-trivial = exact mode with >=2 different events firing in >=2 different intervals; distinct by case hash.")
ASSUMPTIONS = [
    "grids start at or after the initial time (documented usage: t = linspace(t0, ...), or t[1::] of it)",
    "continuous event times never coincide with a grid point other than t0 (probability zero)",
]
BUDGET = {"quick": (4, 80), "thorough": (16, 1000)}
TECHNIQUE = "property-based testing (Hypothesis @given) with a differential oracle: gridded output vs the raw path regenerated from the same seeded random stream"
LEVEL_TEXT = ("Exploration: for each generated model, grid and seed the gridded result is recomputed independently from the "
              "raw path of the identical random stream, so both the state lookup and the per-interval, per-transition counts are decided exactly.")
LEVEL_NOTE = "Relies on the serial engine consuming the seeded NumPy global stream identically for scalar and gridded calls (checked: same loop)."
DESIGN_REF = "DESIGN.md section 3 (C15), section 4 (F8)"


def strategy(tier):
    @st.composite
    def case(draw):
        m = draw(S.event_model())
        su = draw(S.stochastic_setup(m))
        n = draw(st.integers(3, 10))
        kind = draw(st.sampled_from(["uniform", "uniform", "nonuniform", "beyond"]))
        h = su["horizon"]
        if kind == "uniform":
            rel = [h * i / (n - 1) for i in range(n)]
        else:
            incs = [draw(S.fl(0.02, 1.0, 3)) for _ in range(n - 1)]
            tot = sum(incs)
            rel, acc = [0.0], 0.0
            for v in incs:
                acc += v
                rel.append(h * acc / tot)
            if kind == "beyond":
                rel[-1] = rel[-1] + 5 * h
        # the library's own t[1::] convention: t0 lives in initial_values and the grid holds the remaining times, so the
        # first requested time lies after t0 and events may happen before it
        if draw(st.integers(0, 3)) == 0:
            off = draw(S.fl(0.05, 0.6, 3)) * h
            rel = [v + off for v in rel]
        rel = [S.sig(v, 6) for v in rel]
        if draw(st.integers(0, 5)) == 0:
            # a time asked for twice (a fine grid glued to a coarse one with the joining time in both): one identical row more,
            # one interval of length zero with no counts
            j = draw(st.integers(0, len(rel) - 1))
            rel = rel[:j + 1] + rel[j:]
        c = {"model": m, "setup": su, "grid_rel": rel,
             "grid_type": draw(st.sampled_from(["list", "tuple", "array"])),
             "exact": draw(st.sampled_from([True, True, True, False])),
             "iters": draw(st.integers(1, 2)),
             # any truthy value selects the exact algorithm: the literal True, 1, or a NumPy bool from a comparison
             "exact_spelling": draw(st.sampled_from(["True", "True", "1", "np.bool_"])),
             "also_default_output": draw(st.integers(0, 2)) == 0}
        if draw(st.integers(0, 2)) == 0:
            # magnitudes carried by parameters, and a SECOND gridded call on the same object after the parameters (incl. those
            # magnitudes) were re-assigned: the second output must follow the model's current state-change matrix
            pm = draw(S.parametrise_magnitudes(m, su))
            if pm is not None:
                c["model"], c["setup"], theta_alt = pm
                c["second"] = {"theta": theta_alt, "np_seed": draw(st.integers(0, 2 ** 32 - 1)),
                               "grid_type": draw(st.sampled_from(["list", "tuple", "array"]))}
        return c
    return case()


def oracle(case, rec):
    m, su = case["model"], case["setup"]
    model, order = stoch.prepare(m, su)
    _check_call(case, rec, model, order, su, case["grid_type"], "")
    sec = case.get("second")
    if sec:
        rec.label("second-call-after-parameter-change")
        su2 = dict(su, theta=sec["theta"], np_seed=sec["np_seed"])
        model.parameters = list(su2["theta"])
        model.initial_values = (list(su2["x0"]), np.float64(su2["t0"]))
        _check_call(case, rec, model, order, su2, sec["grid_type"], "second-call/")


def _check_call(case, rec, model, order, su, grid_type, tag):
    m = case["model"]
    n_s, n_e = len(ir.state_names(m)), len(m["events"])
    grid = np.array([su["t0"] + v for v in case["grid_rel"]])
    if not (np.diff(grid) >= 0).all() or (np.diff(grid) == 0).sum() > 1:
        raise Inconclusive("degenerate grid")
    if (np.diff(grid) == 0).any():
        rec.label("grid:repeated-time")
    g_arg = {"list": list(grid), "tuple": tuple(grid), "array": grid}[grid_type]
    exact = case["exact"]
    V = stoch.V_int(m, su["theta"], order)
    key = "C15/" + tag + ("exact" if exact else "tau")
    rec.label("mode:" + ("exact" if exact else "tau"), "grid:" + grid_type,
              "grid-start:" + ("t0" if case["grid_rel"][0] == 0 else "after-t0"))
    if not tag:
        stoch.limit_steps(model, 1200000 if exact else 120000)
    try:
        np.random.seed(su["np_seed"])
        ex_arg = exact
        if exact and case.get("exact_spelling") == "1":
            ex_arg = 1
        elif exact and case.get("exact_spelling") == "np.bool_":
            ex_arg = np.bool_(True)
        if exact:
            rec.label("exact-flag:" + case.get("exact_spelling", "True"))
        out = stoch.simulate("C15", key, case, model.solve_stochast, g_arg, case["iters"], exact=ex_arg, full_output=True, parallel=False)
        raw = stoch.simulate("C15", key + "/raw", case, stoch.run_raw, model, float(grid[-1]), case["iters"], exact, su["np_seed"])
        plain = None
        if case.get("also_default_output"):
            # the default call (full_output left out) on the same random stream returns just the state arrays
            np.random.seed(su["np_seed"])
            plain = stoch.simulate("C15", key + "/default-output", case, model.solve_stochast, g_arg, case["iters"], exact=ex_arg, parallel=False)
    except stoch.StepBudget:
        raise Inconclusive("step budget")
    try:
        Xg, Cg, Tg = out
    except Exception:
        raise PropertyViolation(key + "/return", "gridded call returned %r" % (type(out),), case)
    if len(Xg) != case["iters"] or len(Cg) != case["iters"]:
        raise PropertyViolation(key + "/iterations", "asked %d runs, got %d" % (case["iters"], len(Xg)), case)
    if not np.array_equal(np.asarray(Tg, float), grid):
        raise PropertyViolation(key + "/times", "returned times %s are not the requested grid" % (Tg,), case)
    if plain is not None:
        rec.label("default-output-compared")
        if not isinstance(plain, (list, tuple)) or len(plain) != case["iters"] or any(
                np.asarray(a).shape != np.asarray(b).shape or not np.array_equal(np.asarray(a, float), np.asarray(b, float))
                for a, b in zip(plain, Xg)):
            raise PropertyViolation(key + "/default-output", "solve_stochast(grid, n) without full_output does not return the state arrays "
                                    "of the full-output call on the same random stream", case)
    nontrivial = False
    for it in range(case["iters"]):
        X = np.asarray(Xg[it], float)
        Cn = np.asarray(Cg[it], float)
        Xr, Cr, Tr = (np.asarray(raw[0][it], float), np.asarray(raw[1][it], float), np.asarray(raw[2][it], float))
        if Cr.size == 0:
            Cr = Cr.reshape(0, n_e)
            rec.label("raw:no-event")
        if X.shape != (len(grid), n_s):
            raise PropertyViolation(key + "/shape", "state output has shape %s, expected (%d,%d)" % (X.shape, len(grid), n_s), case)
        if case["grid_rel"][0] == 0 and not np.array_equal(X[0], np.asarray(su["x0"], float)):
            raise PropertyViolation(key + "/first-row", "first row %s is not the initial state %s" % (X[0], su["x0"]), case)
        if Cn.shape != (len(grid) - 1, n_e):
            raise PropertyViolation(key + "/counts-shape", "counts output has shape %s, expected (%d,%d)" % (Cn.shape, len(grid) - 1, n_e), case)
        if exact:
            for k, tk in enumerate(grid):
                idx = int(np.searchsorted(Tr, tk, side="right") - 1)
                if not np.array_equal(X[k], Xr[idx]):
                    raise PropertyViolation(key + "/row-lookup", "row %d (t=%r) is %s but the path is in state %s at that time" % (
                        k, tk, X[k], Xr[idx]), case)
            ev_t = Tr[1:]
            want = np.zeros((len(grid) - 1, n_e))
            for k in range(len(grid) - 1):
                sel = (ev_t > grid[k]) & (ev_t <= grid[k + 1])
                want[k] = Cr[sel].sum(axis=0) if sel.any() else 0
            if not np.array_equal(Cn, want):
                k = int(np.argwhere((Cn != want).any(axis=1))[0][0])
                raise PropertyViolation(key + "/interval-counts", "interval %d: reported counts %s, path has %s per transition" % (
                    k, Cn[k], want[k]), case)
            if not np.array_equal(np.diff(X, axis=0), Cn.dot(V.T.astype(float))):
                raise PropertyViolation(key + "/rows-vs-counts", "consecutive rows do not differ by V*counts", case)
            active = (want.sum(axis=1) > 0).sum()
            if active >= 2 and (want.sum(axis=0) > 0).sum() >= min(2, n_e):
                nontrivial = True
        else:
            lo = np.minimum.accumulate(Xr[::-1], axis=0)[::-1]
            for k, tk in enumerate(grid):
                j = int(np.searchsorted(Tr, tk, side="right") - 1)
                a, b = Xr[j], Xr[min(j + 1, len(Xr) - 1)]
                if ((X[k] < np.minimum(a, b) - 1e-9) | (X[k] > np.maximum(a, b) + 1e-9)).any():
                    raise PropertyViolation(key + "/interp-hull", "row %d=%s lies outside the neighbouring raw states %s, %s" % (k, X[k], a, b), case)
            if (Cn < -1e-9).any() or (Cn.sum(axis=0) > Cr.sum(axis=0) + 1e-9).any():
                raise PropertyViolation(key + "/counts-total", "gridded counts %s exceed raw totals %s" % (Cn.sum(axis=0), Cr.sum(axis=0)), case)
    if nontrivial:
        rec.mark_nontrivial(case, {"model": pretty(m), "setup": su, "grid_rel": case["grid_rel"]})
