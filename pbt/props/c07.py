"""C07 - the gradient handed to optimisers is the derivative of cost."""
import numpy as np
from hypothesis import strategies as st

from pbt import strategies as S
from pbt import ir, lossgen, refsolve, jets, refdist
from pbt.harness import PropertyViolation, Inconclusive
from pbt.util import call

ID = "C07"
TITLE = "The gradient handed to optimisers is the derivative of cost"
RULE = ("Cases as in C06 plus: target_param subsets in a generated order, target_state subsets in a generated order, integrator method in "
        "{None, lsoda, vode, dopri5}, entry point in {sensitivity, gradient, sensitivity(full_output=True), sensitivityIV, jac} "
        "(jac(theta) is compared as a set of columns with the reference sensitivities of the observed states; its layout is "
        "recorded, not judged). In half of the cases 1-2 further calls (sensitivity, gradient, sensitivityIV, cost) follow on the SAME "
        "loss object at other parameters / initial values (in half of those one block is held fixed: same parameters with other initial values, or the reverse); each must be right at its own point. In a quarter of the cases a second loss object (other parameters, initial state and times) lives on the same model object and computes its gradient before each of our calls. Models as in C06 incl. catalogue entries and container/dtype forms. Oracle: reference "
        "gradient g_k = sum_{i,s} dloss/dyhat_is * dx_s(t_i)/d(free variable k) with dx/dtheta, dx/dx0 from own variational equations on the "
        "abstract model (jets) and dloss/dyhat from mpmath derivatives of the reference log-densities (weights enter for Square and Normal "
        "only), ordered as the free variables were supplied: parameters in target_param order, then initial values in target_state order; "
        "rtol 1e-5 plus 1e-7 of the size of the terms a solver error perturbs (so gradients that vanish at the optimum are judged at solver tolerance). The reference gradient is itself cross-checked against a central difference of the reference cost. Non-trivial = >=2 free "
        "variables with gradient entries differing by > 1% and one of: observed states out of declaration order, out-of-order or partial "
        "target_param, target_state, a single observed state with a non-Square loss; distinct by case hash.")
ASSUMPTIONS = [
    "non-unit weights only for Square and Normal (the statement's restriction)",
    "sensitivityIV input is [free parameters, free initial values]; combinations whose length the input validation documents as ambiguous are skipped",
    "well-conditioned trajectories only (measured per case)",
]
BUDGET = {"quick": (4, 60), "thorough": (16, 500)}
TECHNIQUE = "property-based testing (Hypothesis @given) against reference forward sensitivities (AD-derived variational equations) chained through mpmath loss derivatives; cross-checked by finite differences of the reference cost"
LEVEL_TEXT = ("Exploration over models, selections, orders of free variables, losses and integrators; the oracle is an independently "
              "computed gradient, so permutations, index slips and chain-rule errors are visible as O(1) relative errors.")
LEVEL_NOTE = "rtol 1e-5 against a reference solved at rtol 1e-11; errors below that are invisible."
DESIGN_REF = "DESIGN.md section 3 (C07), section 4 (F4, F5)"


def strategy(tier):
    @st.composite
    def case(draw):
        c = draw(lossgen.loss_case(target_param="any-order", target_state=True, max_states=3, n_times=(2, 8), catalogue=1))
        c["method"] = draw(st.sampled_from([None, None, "lsoda", "vode", "dopri5"]))
        c["entry"] = draw(st.sampled_from(["sensitivity", "gradient", "sensitivity-full", "sensitivityIV", "sensitivityIV", "jac"]))
        if c["entry"] != "sensitivityIV":
            c["target_state"] = None
        if c["entry"] == "jac":
            c["weights"] = None
        # 0-2 further evaluations on the same loss object at other points (parameters scaled; for IV entries other initial values)
        fus = []
        iv = c["entry"] == "sensitivityIV"
        for _ in range(draw(st.sampled_from([0, 1, 2, 2] if iv else [0, 0, 1, 2]))):
            fus.append({"entry": draw(st.sampled_from(["sensitivityIV", "sensitivityIV", "sensitivityIV", "gradient", "cost"] if iv else
                                                      ["sensitivity", "gradient", "sensitivityIV", "sensitivityIV", "cost"])),
                        "theta_factors": [draw(st.sampled_from([0.7, 0.9, 1.0, 1.15, 1.4])) for _ in range(len(c["model"]["params"]))],
                        "x0_factors": [draw(st.sampled_from([0.8, 0.9, 1.1, 1.3])) for _ in range(len(ir.state_names(c["model"])))],
                        # a profile / coordinate search holds one block fixed: same parameters with other initial values, or
                        # the other way round
                        "hold": draw(st.sampled_from(["none", "theta", "theta", "x0"] if iv else ["none", "none", "theta", "x0"]))})
        c["followups"] = fus
        # a second loss object (another data set) on the same model object, evaluated before each of our calls
        c["companion"] = draw(st.integers(0, 3)) == 0
        return c
    return case()


def reference_gradient(case, y, free, x0, with_iv):
    m, su = case["model"], case["setup"]
    names = ir.state_names(m)
    times = lossgen.times_of(case)
    th = lossgen.full_theta(case, free)
    out = refsolve.reference_sensitivities(m, th, x0, su["t0"], times, with_iv=with_iv)
    X, Sp = out[0], out[1]
    cols = lossgen.obs_cols(case)
    yhat = X[:, cols]
    if (yhat <= 1e-9).any():
        raise Inconclusive("prediction not positive")
    dl = lossgen.ref_dloss(case, y, yhat)                      # n x p
    d2 = lossgen.ref_d2loss(case, y, yhat)
    tp = case["target_param"] or m["params"]
    g, gs = [], []

    def add(Sk):
        g.append(float((dl * Sk).sum()))
        # size of the terms a solver error of relative size delta perturbs: |l''| |S| |yhat| delta + |l'| |S| delta
        gs.append(float(((np.abs(d2) * (1 + np.abs(yhat)) + np.abs(dl)) * np.maximum(1.0, np.abs(Sk))).sum()))
    for q in tp:
        add(Sp[:, cols, m["params"].index(q)])
    if with_iv:
        S0 = out[2]
        ts = case["target_state"] or names
        for s in ts:
            add(S0[:, cols, names.index(s)])
    return np.array(g), yhat, np.array(gs)


def _ambiguous(case, m, names, free):
    ts = case["target_state"] or names
    n_in = len(free) + len(ts)
    n_p = len(m["params"])
    if case["target_param"] is not None and case["target_state"] is None and n_in == n_p:
        return True
    if case["target_param"] is None and case["target_state"] is not None and len(ts) + n_p == len(ts):
        return True
    return False


def _one_evaluation(case, rec, obj, y, entry, free, x0, method, key):
    """One call on the (possibly already used) loss object, compared with the reference gradient at (free, x0)."""
    m, su = case["model"], case["setup"]
    names = ir.state_names(m)
    iv = entry == "sensitivityIV"
    ref, yhat, gscale = reference_gradient(case, y, free, x0, iv)
    # cross-check the reference against a central difference of the reference cost (guards the oracle itself)
    k0 = 0
    h = 1e-5 * max(1.0, abs(free[k0]))
    fp, fm = list(free), list(free)
    fp[k0] += h
    fm[k0] -= h
    times = lossgen.times_of(case)
    cols = lossgen.obs_cols(case)
    cp = lossgen.ref_cost(case, y, lossgen.reference_traj(m, lossgen.full_theta(case, fp), x0, su["t0"], times)[:, cols])
    cm = lossgen.ref_cost(case, y, lossgen.reference_traj(m, lossgen.full_theta(case, fm), x0, su["t0"], times)[:, cols])
    fd = (cp - cm) / (2 * h)
    if abs(fd - ref[k0]) > 1e-3 * (1 + abs(fd) + np.abs(ref).max()):
        raise Inconclusive("reference gradient disagrees with finite difference of reference cost")
    if entry == "jac":
        # jac(theta): the sensitivities of the observed states w.r.t. the free parameters at the observation times, the raw
        # material of gradient/jtj.  Checked as a set of columns (every reference column d x_s(t_.)/d theta_k appears exactly
        # once), so that the column layout, which only the library's own consumers rely on, is not part of the verdict.
        out = refsolve.reference_sensitivities(m, lossgen.full_theta(case, free), x0, su["t0"], times)
        Sp = out[1]
        tp_ = case["target_param"] or m["params"]
        refcols = [(s_, q, Sp[:, cols[j], m["params"].index(q)]) for q in tp_ for j, s_ in enumerate(case["obs"])]
        J = np.asarray(call(key, case, obj.jac, np.array(free), False, False, method), float)
        if J.ndim != 2 or J.shape != (len(times), len(refcols)):
            raise PropertyViolation(key + "/shape", "jac has shape %s, expected (%d observation times, %d observed states x %d free "
                                    "parameters)" % (J.shape, len(times), len(case["obs"]), len(tp_)), case)
        unused = list(range(J.shape[1]))
        for s_, q, col in refcols:
            tol = 1e-5 * (np.abs(col).max() + 1e-9) + 1e-7 * (1 + np.abs(yhat).max())
            hit = [c for c in unused if np.abs(J[:, c] - col).max() <= tol]
            if not hit:
                raise PropertyViolation(key + "/value", "no column of jac equals d %s(t_i)/d %s = %s (jac columns: %s)" % (
                    s_, q, np.array2string(col, precision=6), np.array2string(J.T, precision=6)), case)
            unused.remove(hit[0])
        layout = all(np.abs(J[:, j + len(case["obs"]) * k] - refcols[k * len(case["obs"]) + j][2]).max()
                     <= 1e-5 * (np.abs(refcols[k * len(case["obs"]) + j][2]).max() + 1e-9) + 1e-7 * (1 + np.abs(yhat).max())
                     for k in range(len(tp_)) for j in range(len(case["obs"])))
        rec.label("jac-layout:" + ("state-fastest-within-parameter" if layout else "other"))
        return None
    if iv:
        arg = np.array(list(free) + [x0[names.index(s)] for s in (case["target_state"] or names)])
        got = call(key, case, obj.sensitivityIV, arg, False, method)
    elif entry == "gradient":
        got = call(key, case, obj.gradient, np.array(free))
    elif entry == "sensitivity-full":
        out = call(key, case, obj.sensitivity, np.array(free), True, method)
        try:
            got, info = out
        except Exception:
            raise PropertyViolation(key + "/return", "sensitivity(full_output=True) did not return (grad, info)", case)
    elif entry == "cost":
        # a cost evaluation in between (what an optimiser does): checked against the reference cost
        got = float(call(key, case, obj.cost, np.array(free)))
        refc = lossgen.ref_cost(case, y, yhat)
        from pbt.props.c06 import _well_conditioned
        traj_ = lossgen.reference_traj(m, lossgen.full_theta(case, free), x0, su["t0"], times)
        _well_conditioned(case, y, yhat, traj_, refc)      # same guard as C06: a log-type loss on decayed predictions
        if not np.isfinite(got) or abs(got - refc) > 1e-5 * (1 + abs(refc)):
            raise PropertyViolation(key + "/value", "cost(theta) = %.12g in a call sequence, reference %.12g" % (got, refc), case)
        return None
    else:
        got = call(key, case, obj.sensitivity, np.array(free), False, method)
    got = np.asarray(got, float)
    if got.shape != ref.shape:
        raise PropertyViolation(key + "/shape", "gradient has shape %s for %d free variables" % (got.shape, len(ref)), case)
    scale = np.abs(ref).max() + 1e-12
    # solver tolerance: the integrators run at rtol=atol=1e-10; allow 1e-7 of the perturbable term size
    if not np.isfinite(got).all() or (np.abs(got - ref) > 1e-5 * scale + 1e-7 * gscale).any():
        perm_hint = ""
        if got.size > 1 and np.allclose(np.sort(got), np.sort(ref), rtol=1e-5, atol=1e-7 * gscale.max() + 1e-5 * scale):
            perm_hint = " (a permutation of the reference)"
        raise PropertyViolation(key + "/value", "gradient %s, derivative of cost w.r.t. the free variables in the supplied order %s%s" % (
            np.array2string(got, precision=8), np.array2string(ref, precision=8), perm_hint), case)
    return ref


def oracle(case, rec):
    m, su = case["model"], case["setup"]
    names = ir.state_names(m)
    n_s, n_p = len(names), len(m["params"])
    y, _ = lossgen.make_data(case)
    key = "C07/%s/%s" % (case["entry"], case["loss"])
    iv = case["entry"] == "sensitivityIV"
    free = lossgen.free_theta(case)
    rec.label("loss:" + case["loss"], "entry:" + case["entry"], "method:%s" % case["method"],
              "target_param:" + ("none" if case["target_param"] is None else "given"),
              "target_state:" + ("none" if case["target_state"] is None else "given"))
    if iv and _ambiguous(case, m, names, free):
        raise Inconclusive("ambiguous input length (documented rejection)")
    model, obj = call(key + "/construct", case, lossgen.build, case, y)
    if case.get("companion"):
        comp = call(key + "/companion-construct", case, lossgen.companion, case, model)
        rec.label("companion-loss-object-on-same-model")
        lossgen.interleave(obj, ["cost", "gradient", "sensitivity", "sensitivityIV", "jac"],
                           lambda: call(key + "/companion-work", case, lossgen.companion_work, comp))
    x0 = list(su["x0"])
    if iv:
        for s in (case["target_state"] or names):
            x0[names.index(s)] = case["x0_eval"][names.index(s)]
    ref = _one_evaluation(case, rec, obj, y, case["entry"], free, x0, case["method"], key)
    # ---- further calls on the SAME loss object (an optimiser's path): the object remembers the parameters and, after an
    # initial-value call, the initial state it was last given; every later result must still be the derivative at its own point
    for j, fu in enumerate(case.get("followups") or []):
        entry2 = fu["entry"]
        if entry2 == "sensitivityIV" and (case["entry"] != "sensitivityIV" or _ambiguous(case, m, names, free)):
            entry2 = "sensitivity"
        hold = fu.get("hold", "none")
        free2 = list(free) if hold == "theta" else [S.sig(v * f, 5) for v, f in zip(free, fu["theta_factors"])]
        x02 = list(x0)                         # non-IV calls use whatever initial state the object currently holds
        if hold != "none":
            rec.label("sequence:holds-" + hold)
        if entry2 == "sensitivityIV" and hold != "x0":
            for s, f in zip((case["target_state"] or names), fu["x0_factors"]):
                x02[names.index(s)] = S.sig(x0[names.index(s)] * f, 5)
        key2 = "C07/sequence/%s-after-%s/%s" % (entry2, case["entry"], case["loss"])
        rec.label("sequence:%s-after-%s" % (entry2, case["entry"]))
        _one_evaluation(case, rec, obj, y, entry2, free2, x02, case["method"], key2)
        x0 = x02
    if ref is None:
        if case["entry"] == "jac" and len(free) * len(case["obs"]) >= 2:
            rec.mark_nontrivial(case, dict(lossgen.describe(case), entry="jac", method=case["method"]))
        return
    decl = [names.index(s) for s in case["obs"]]
    tp = case["target_param"]
    special = (decl != sorted(decl)) or (tp is not None and (len(tp) < n_p or [m["params"].index(q) for q in tp] != sorted(m["params"].index(q) for q in tp))) \
        or case["target_state"] is not None or (len(case["obs"]) == 1 and case["loss"] != "Square") or bool(case.get("followups"))
    if len(ref) >= 2 and (np.abs(ref).max() - np.abs(ref).min()) > 0.01 * np.abs(ref).max() and special:
        rec.mark_nontrivial(case, dict(lossgen.describe(case), entry=case["entry"], method=case["method"],
                                       followups=case.get("followups")))


SELFTESTS = [jets.selftest, refsolve.selftest, refdist.selftest]
