"""C19 - R-style distribution helpers are the distributions they name."""
import math

import mpmath as mp
import numpy as np
from hypothesis import strategies as st

from pbt.harness import PropertyViolation, Inconclusive

ID = "C19"
TITLE = "R-style distribution helpers are the distributions they name"
RULE = ("Hypothesis draws (family, function kind d/p/q/r/roundtrip/nbinom-forms, parameters in the valid "
        "range rounded to 6 significant digits - in a fifth of the cases whole numbers handed over as Python or NumPy ints -, an argument placed through a uniform quantile level so "
        "that it is spread over the whole support, log flag, integer seed, n, parameters handed over in the historical positional/keyword mix or all by keyword; in a third of the d/p/q cases the same argument is asked again for 1-2 other parameter sets and then for the first one - no answer may depend on an earlier call; in a quarter of the d/p cases the function is also called on an unsorted array of 3-6 arguments, which must give entry by entry what the scalar calls give). Oracle: closed-form "
        "density/mass/cdf written with mpmath at 30 digits in R's parameterisation (rate, not scale); "
        "q checked through the reference cdf; r checked for same-seed equality, support and a KS test "
        "at alpha=1e-12. Non-trivial = at least one parameter differs from the function's default and "
        "the argument lies strictly inside the support; distinct by case hash.")
ASSUMPTIONS = [
    "mpmath special functions (gammainc, betainc, erfc) at 30 digits are the reference",
    "the bodiless placeholders pnbinom/qnbinom/rnbinom and the absent pbeta are not 'provided' and are not exercised",
    "arguments are drawn at quantile levels in [1e-4, 1-1e-4] so reference cdf values are not denormal",
]
BUDGET = {"quick": (4, 700), "thorough": (16, 6000)}
# coverage-guided campaigns (atheris + fuzz_one_input over the same strategy): (corpus mode, seed offset)
FUZZ = {"quick": {"runs": 2000, "campaigns": [("empty", 0), ("seeded", 1)]},
        "thorough": {"runs": 60000, "campaigns": [("empty", 0), ("empty", 1)] + [("seeded", 2 + i) for i in range(6)]}}

mp.mp.dps = 30

FAMILIES = ["exp", "gamma", "norm", "chisq", "unif", "beta", "pois", "binom", "nbinom"]
DISCRETE = {"pois", "binom", "nbinom"}
HAVE = {
    "exp": "dpqr", "gamma": "dpqr", "norm": "dpqr", "chisq": "dpqr", "unif": "dpqr",
    "beta": "dq", "pois": "dpqr", "binom": "dpqr", "nbinom": "d",
}
SEEDED_R = {"exp", "gamma", "norm", "chisq", "unif", "pois", "binom"}


def _sig(x, n=6):
    if x == 0 or not math.isfinite(x):
        return x
    return float("%.*g" % (n, x))


# ---------------------------------------------------------------- strategies
def _pos(lo=0.05, hi=20.0):
    return st.floats(lo, hi, allow_nan=False).map(_sig)


@st.composite
def _params(draw, fam):
    if draw(st.integers(0, 4)) == 0:
        # whole-number parameters handed over as Python ints (rate=2, sd=3, df=5): the same distributions
        k = lambda lo=1, hi=12: draw(st.integers(lo, hi))
        if fam == "exp":
            return {"rate": k()}
        if fam == "gamma":
            return {"shape": k(), "rate": k()}
        if fam == "norm":
            return {"mean": draw(st.integers(-12, 12)), "sd": k()}
        if fam == "chisq":
            return {"df": k(1, 30)}
        if fam == "unif":
            lo = draw(st.integers(-12, 12))
            return {"min": lo, "max": lo + k(1, 20)}
        if fam == "beta":
            return {"shape1": k(), "shape2": k()}
        if fam == "pois":
            return {"mu": k(0, 40)}          # a mean of exactly 0 is a valid (degenerate) Poisson law: all mass at 0
        if fam == "nbinom":
            return {"size": k(1, 25), "prob": draw(st.floats(0.05, 0.95).map(_sig))}
    if fam == "exp":
        return {"rate": draw(_pos())}
    if fam == "gamma":
        return {"shape": draw(_pos(0.2, 20)), "rate": draw(_pos())}
    if fam == "norm":
        return {"mean": draw(st.floats(-20, 20).map(_sig)), "sd": draw(_pos())}
    if fam == "chisq":
        return {"df": draw(_pos(0.5, 30))}
    if fam == "unif":
        lo = draw(st.floats(-20, 20).map(_sig))
        w = draw(_pos(0.1, 30))
        return {"min": lo, "max": _sig(lo + w)}
    if fam == "beta":
        return {"shape1": draw(_pos(0.3, 15)), "shape2": draw(_pos(0.3, 15))}
    if fam == "pois":
        return {"mu": draw(_pos(0.1, 60))}
    if fam == "binom":
        return {"size": draw(st.integers(1, 60)), "prob": draw(st.floats(0.02, 0.98).map(_sig))}
    if fam == "nbinom":
        return {"size": draw(_pos(0.3, 30)), "prob": draw(st.floats(0.05, 0.95).map(_sig))}
    raise AssertionError(fam)


def strategy(tier):
    @st.composite
    def case(draw):
        fam = draw(st.sampled_from(FAMILIES))
        kinds = list(HAVE[fam])
        if "p" in kinds and "q" in kinds:
            kinds.append("t")           # round trips
        if fam == "nbinom":
            kinds.append("m")           # mean/size form vs (n,p) form
        kind = draw(st.sampled_from(kinds))
        params = draw(_params(fam))
        if fam == "pois" and params["mu"] == 0 and kind not in ("d", "p"):
            params = {"mu": 1}               # quantiles / draws / round trips of a point mass are not exercised
        c = {"family": fam, "kind": kind, "params": params,
             "use_defaults": draw(st.integers(0, 9)) == 0,
             "u": _sig(draw(st.floats(1e-4, 1 - 1e-4)), 8),
             "outside": draw(st.integers(0, 14)) == 0,
             "log": draw(st.booleans()),
             "seed": draw(st.integers(0, 2 ** 32 - 1)),
             "n": draw(st.sampled_from([1, 1, 2, 3, 5, 8, 13, 20])),
             "style": draw(st.sampled_from(["mixed", "mixed", "keyword", "positional"])),
             "int_form": draw(st.sampled_from(["python", "python", "numpy"])),
             "deep_tail": draw(st.sampled_from([0, 0, 0, 0, 0, 1, 2])),
             "array_params": draw(st.integers(0, 5)) == 0}
        if kind in ("d", "p", "m") and draw(st.integers(0, 3)) == 0:
            c["vector"] = [_sig(draw(st.floats(1e-3, 1 - 1e-3)), 6) for _ in range(draw(st.integers(2, 5)))]
            c["vector_reversed"] = draw(st.booleans())
        if kind in ("d", "p", "q") and fam != "nbinom" and draw(st.integers(0, 2)) == 0:
            # the same argument asked again for other parameter values (and back): no answer may depend on an earlier call
            c["again"] = [draw(_params(fam)) for _ in range(draw(st.integers(1, 2)))]
            if kind == "q":
                c["again"] = [({"mu": 1} if (fam == "pois" and P_.get("mu") == 0) else P_) for P_ in c["again"]]
        return c
    return case()


# ---------------------------------------------------------------- reference (mpmath, R parameterisation)
def _ref_pdf(fam, P, x):
    x = mp.mpf(x)
    if fam == "exp":
        r = mp.mpf(P["rate"])
        return r * mp.e ** (-r * x) if x >= 0 else mp.mpf(0)
    if fam in ("gamma", "chisq"):
        a, r = (mp.mpf(P["shape"]), mp.mpf(P["rate"])) if fam == "gamma" else (mp.mpf(P["df"]) / 2, mp.mpf(1) / 2)
        if x < 0:
            return mp.mpf(0)
        if x == 0:
            raise Inconclusive("density at the boundary")
        return mp.e ** (a * mp.log(r) + (a - 1) * mp.log(x) - r * x - mp.loggamma(a))
    if fam == "norm":
        m, s = mp.mpf(P["mean"]), mp.mpf(P["sd"])
        return mp.e ** (-((x - m) / s) ** 2 / 2) / (s * mp.sqrt(2 * mp.pi))
    if fam == "unif":
        lo, hi = mp.mpf(P["min"]), mp.mpf(P["max"])
        return 1 / (hi - lo) if lo <= x <= hi else mp.mpf(0)
    if fam == "beta":
        a, b = mp.mpf(P["shape1"]), mp.mpf(P["shape2"])
        if x <= 0 or x >= 1:
            if x < 0 or x > 1:
                return mp.mpf(0)
            raise Inconclusive("density at the boundary")
        return mp.e ** ((a - 1) * mp.log(x) + (b - 1) * mp.log(1 - x) - (mp.loggamma(a) + mp.loggamma(b) - mp.loggamma(a + b)))
    if fam == "pois":
        mu = mp.mpf(P["mu"])
        if x < 0 or x != mp.floor(x):
            return mp.mpf(0)
        if mu == 0:
            return mp.mpf(1) if x == 0 else mp.mpf(0)
        return mp.e ** (x * mp.log(mu) - mu - mp.loggamma(x + 1))
    if fam == "binom":
        n, p = mp.mpf(P["size"]), mp.mpf(P["prob"])
        if x < 0 or x > n or x != mp.floor(x):
            return mp.mpf(0)
        return mp.binomial(n, x) * p ** x * (1 - p) ** (n - x)
    if fam == "nbinom":
        k, p = mp.mpf(P["size"]), mp.mpf(P["prob"])
        if x < 0 or x != mp.floor(x):
            return mp.mpf(0)
        return mp.e ** (mp.loggamma(x + k) - mp.loggamma(k) - mp.loggamma(x + 1) + k * mp.log(p) + x * mp.log(1 - p))
    raise AssertionError(fam)


def _ref_cdf(fam, P, x):
    x = mp.mpf(x)
    if fam == "exp":
        r = mp.mpf(P["rate"])
        return -mp.expm1(-r * x) if x > 0 else mp.mpf(0)
    if fam in ("gamma", "chisq"):
        a, r = (mp.mpf(P["shape"]), mp.mpf(P["rate"])) if fam == "gamma" else (mp.mpf(P["df"]) / 2, mp.mpf(1) / 2)
        return mp.gammainc(a, 0, r * x, regularized=True) if x > 0 else mp.mpf(0)
    if fam == "norm":
        return mp.ncdf((x - mp.mpf(P["mean"])) / mp.mpf(P["sd"]))
    if fam == "unif":
        lo, hi = mp.mpf(P["min"]), mp.mpf(P["max"])
        return min(mp.mpf(1), max(mp.mpf(0), (x - lo) / (hi - lo)))
    if fam == "beta":
        if x <= 0:
            return mp.mpf(0)
        if x >= 1:
            return mp.mpf(1)
        return mp.betainc(mp.mpf(P["shape1"]), mp.mpf(P["shape2"]), 0, x, regularized=True)
    if fam in DISCRETE:
        if x < 0:
            return mp.mpf(0)
        k = int(mp.floor(x))
        return mp.fsum(_ref_pdf(fam, P, j) for j in range(0, k + 1))
    raise AssertionError(fam)


def _scipy_frozen(fam, P):
    import scipy.stats as ss
    if fam == "exp":
        return ss.expon(scale=1.0 / P["rate"])
    if fam == "gamma":
        return ss.gamma(a=P["shape"], scale=1.0 / P["rate"])
    if fam == "norm":
        return ss.norm(loc=P["mean"], scale=P["sd"])
    if fam == "chisq":
        return ss.chi2(df=P["df"])
    if fam == "unif":
        return ss.uniform(loc=P["min"], scale=P["max"] - P["min"])
    if fam == "beta":
        return ss.beta(P["shape1"], P["shape2"])
    if fam == "pois":
        return ss.poisson(P["mu"])
    if fam == "binom":
        return ss.binom(P["size"], P["prob"])
    if fam == "nbinom":
        return ss.nbinom(P["size"], P["prob"])


DEFAULTS = {"exp": {"rate": 1.0}, "norm": {"mean": 0, "sd": 1}, "unif": {"min": 0.0, "max": 1.0},
            "pois": {"mu": 1.0}}


_ORDER = {"exp": ["rate"], "gamma": ["shape", "rate"], "norm": ["mean", "sd"], "chisq": ["df"], "unif": ["min", "max"],
          "beta": ["shape1", "shape2"], "pois": ["mu"], "binom": ["size", "prob"]}
_STYLE = ["mixed"]          # how parameters are handed over in this case: the historical mix, or all by keyword


_INT_FORM = ["python"]      # whole-number parameters as Python ints or NumPy integer scalars


def _call(fn, fam, x, P, use_defaults, **kw):
    """Call pygom.utilR.<fn> with keyword parameters (or with none, to exercise the defaults)."""
    import pygom.utilR as R
    f = getattr(R, fn)
    if _INT_FORM[0] == "numpy":
        P = {k: (np.int64(v) if isinstance(v, int) and not isinstance(v, bool) else v) for k, v in P.items()}
    if use_defaults:
        return f(x, **kw)
    if _STYLE[0] == "keyword" and fam != "nbinom":
        return f(x, **P, **kw)                      # every parameter by keyword
    if _STYLE[0] == "positional" and fam in _ORDER and fn[0] in "dp" and set(kw) == {"log"}:
        # everything by position, the log flag included: d/p functions are declared as f(x, <parameters>, log)
        return f(x, *[P[k] for k in _ORDER[fam]], kw["log"])
    if _STYLE[0] == "positional" and fam in _ORDER and not kw:
        return f(x, *[P[k] for k in _ORDER[fam]])
    if fam == "gamma":
        return f(x, P["shape"], rate=P["rate"], **kw)
    if fam == "chisq":
        return f(x, P["df"], **kw)
    if fam == "beta":
        return f(x, P["shape1"], P["shape2"], **kw)
    if fam == "binom":
        return f(x, P["size"], P["prob"], **kw)
    return f(x, **P, **kw)


def _close(got, ref, rtol, what, key, case, atol=0.0):
    try:
        g = float(np.asarray(got).reshape(-1)[0]) if np.ndim(got) else float(got)
    except Exception as e:
        raise PropertyViolation(key, "%s returned non-numeric %r (%r)" % (what, got, e), case)
    r = float(ref)
    if math.isinf(r) and g == r:
        return
    if not math.isfinite(g) or abs(g - r) > rtol * (abs(r) + 1e-300) + 1e-300 + atol:
        raise PropertyViolation(key, "%s = %.17g but reference = %.17g" % (what, g, r), case)


def oracle(case, rec):
    _STYLE[0] = case.get("style", "mixed")
    _INT_FORM[0] = case.get("int_form", "python")
    if any(isinstance(v, int) and not isinstance(v, bool) for k, v in case["params"].items() if not (case["family"] == "binom" and k == "size")):
        rec.label("parameters:whole-numbers-as-" + _INT_FORM[0] + "-int")
    x_first = _oracle_one(case, rec)
    if case.get("again"):
        rec.label("call-sequence:same-argument-other-parameters")
        for P2 in list(case["again"]) + [case["params"]]:
            if case["kind"] in "dp":
                # the fixed argument must not sit in an extreme tail of the other distribution (reference values would be
                # denormal or round to 0/1, where a relative comparison of log values means nothing)
                c_at = float(_ref_cdf(case["family"], P2, x_first))
                if not (1e-6 < c_at < 1 - 1e-6):
                    rec.label("call-sequence:follow-up-skipped-extreme-tail")
                    continue
            _oracle_one(dict(case, params=P2, use_defaults=False, again=None, x_fixed=x_first, outside=False), rec, count=False)


def _oracle_one(case, rec, count=True):
    fam, kind, P = case["family"], case["kind"], dict(case["params"])
    use_def = bool(case["use_defaults"]) and fam in DEFAULTS
    if use_def:
        P = dict(DEFAULTS[fam])
    frozen = _scipy_frozen(fam, P)
    # argument: spread over the support through a quantile level (scipy used as *generator* only)
    u = case["u"]
    x = float(frozen.ppf(u))
    if fam not in DISCRETE:
        x = _sig(x, 8)
    inside = True
    if case["outside"] and kind in "dp":
        lo, hi = frozen.support()
        if math.isfinite(lo):
            x, inside = (lo - 1.5 if fam not in DISCRETE else lo - 2), False
        elif math.isfinite(hi):
            x, inside = hi + 1.5, False
    x = float(x)
    if case.get("x_fixed") is not None and kind in "dp":
        x, inside = float(case["x_fixed"]), True
    log = bool(case["log"])
    if case.get("deep_tail") and log and not use_def and case.get("x_fixed") is None:
        # far out in a tail, where the plain density / cdf underflows a double but its logarithm is an ordinary number - the
        # reason the log forms exist
        z = {1: 40.0, 2: 60.0}[case["deep_tail"]]
        if fam == "norm" and kind in "dp":
            x, inside = float(P["mean"]) - z * float(P["sd"]) if kind == "p" else float(P["mean"]) + z * float(P["sd"]), True
            rec.label("argument:deep-tail")
        elif fam in ("exp", "gamma") and kind == "d":
            x, inside = 20.0 * z / float(P["rate"]), True
            rec.label("argument:deep-tail")
        elif fam == "chisq" and kind == "d":
            x, inside = 40.0 * z, True
            rec.label("argument:deep-tail")
    if not math.isfinite(x):
        raise Inconclusive("argument not finite")
    if count:
        rec.label("family:" + fam, "kind:" + kind, "log" if (log and kind in "dp") else "plain")
    nontrivial = (not use_def) and inside
    fnbase = fam
    K = "C19/%s%s" % ("%s", fnbase)

    if kind == "d":
        ref = _ref_pdf(fam, P, x)
        key = "C19/d%s/%s" % (fam, "log" if log else "plain")
        if fam == "nbinom":
            import pygom.utilR as R
            try:
                got = R.dnbinom(x, P["size"], prob=P["prob"], log=log)
            except Exception as e:
                raise PropertyViolation(key + "/raises", "dnbinom raised %r" % (e,), case)
        else:
            try:
                got = _call("d" + fam, fam, x, P, use_def, log=log)
            except Exception as e:
                raise PropertyViolation(key + "/raises", "d%s(%r, %r, log=%r) raised %r" % (fam, x, P, log, e), case)
        if log:
            if ref == 0:
                if not (np.isneginf(got)):
                    raise PropertyViolation(key, "log density outside support is %r, expected -inf" % (got,), case)
            else:
                # (a log density may be ~0 by cancellation, e.g. log(2) - 2x at x = log(2)/2: absolute floor at rounding level)
                _close(got, mp.log(ref), 1e-9, "d%s(%r,%r,log=True)" % (fam, x, P), key, case, atol=1e-13 * (1 + abs(float(x))))
        else:
            _close(got, ref, 1e-9, "d%s(%r,%r)" % (fam, x, P), key, case)
    elif kind == "p":
        ref = _ref_cdf(fam, P, x)
        key = "C19/p%s/%s" % (fam, "log" if log else "plain")
        try:
            got = _call("p" + fam, fam, x, P, use_def, log=log)
        except Exception as e:
            raise PropertyViolation(key + "/raises", "p%s(%r, %r, log=%r) raised %r" % (fam, x, P, log, e), case)
        if log:
            if ref == 0:
                if not np.isneginf(got):
                    raise PropertyViolation(key, "log cdf below support is %r, expected -inf" % (got,), case)
            else:
                # log cdf near 0 (cdf within 1e-12 of 1, e.g. x at the top of a binomial's support): judged on the cdf scale
                if abs(float(mp.log(ref))) < 1e-11 and abs(float(got)) < 1e-11:
                    pass
                else:
                    _close(got, mp.log(ref), 1e-8, "p%s(%r,%r,log=True)" % (fam, x, P), key, case)
        else:
            _close(got, ref, 1e-9, "p%s(%r,%r)" % (fam, x, P), key, case)
    elif kind == "q":
        key = "C19/q%s" % fam
        try:
            got = _call("q" + fam, fam, u, P, use_def)
        except Exception as e:
            raise PropertyViolation(key + "/raises", "q%s(%r, %r) raised %r" % (fam, u, P, e), case)
        q = float(got)
        if fam in DISCRETE:
            c_at = _ref_cdf(fam, P, q)
            c_below = _ref_cdf(fam, P, q - 1)
            if q != math.floor(q) or not (c_at >= u - 1e-12 and c_below < u + 1e-12):
                raise PropertyViolation(key, "q%s(%r,%r)=%r: cdf(q)=%s cdf(q-1)=%s do not bracket p" % (
                    fam, u, P, q, mp.nstr(c_at, 12), mp.nstr(c_below, 12)), case)
        else:
            c_at = _ref_cdf(fam, P, q)
            dens = _ref_pdf(fam, P, q) if 0 < c_at < 1 else mp.mpf(1)
            # the quantile is scipy's numerical inverse (e.g. beta.ppf(0.5) of a symmetric beta is off by 1e-9 in x);
            # the property is about WHICH distribution, so the tolerance is the inverse solver's, not arithmetic's
            tol = 1e-7 + float(dens) * abs(q) * 1e-9
            if abs(float(c_at) - u) > tol:
                raise PropertyViolation(key, "q%s(%r,%r)=%r but reference cdf there is %s" % (
                    fam, u, P, q, mp.nstr(c_at, 15)), case)
    elif kind == "t":
        key = "C19/roundtrip/%s" % fam
        try:
            q = _call("q" + fam, fam, u, P, use_def)
            back = _call("p" + fam, fam, q, P, use_def)
        except Exception as e:
            raise PropertyViolation(key + "/raises", "p%s(q%s(%r)) raised %r" % (fam, fam, u, e), case)
        if fam in DISCRETE:
            if not (float(back) >= u - 1e-12):
                raise PropertyViolation(key, "p(q(%r)) = %r < p" % (u, back), case)
        else:
            if abs(float(back) - u) > 1e-7:
                raise PropertyViolation(key, "p%s(q%s(%r)) = %r" % (fam, fam, u, back), case)
            try:
                px = _call("p" + fam, fam, x, P, use_def)
                xb = _call("q" + fam, fam, px, P, use_def)
            except Exception as e:
                raise PropertyViolation(key + "/raises", "q%s(p%s(%r)) raised %r" % (fam, fam, x, e), case)
            dens = float(_ref_pdf(fam, P, x))
            if dens > 1e-6 and abs(float(xb) - x) > 1e-7 * (1 + abs(x)) + 1e-9 / dens:
                raise PropertyViolation(key, "q%s(p%s(%r)) = %r" % (fam, fam, x, xb), case)
    elif kind == "m":
        import pygom.utilR as R
        key = "C19/dnbinom/mu-form/%s" % ("log" if log else "plain")
        k, p = P["size"], P["prob"]
        mu = k * (1 - p) / p
        ref = _ref_pdf("nbinom", P, x)
        try:
            a = R.dnbinom(x, k, mu=mu, log=log)
            b = R.dnbinom(x, k, prob=p, log=log)
        except Exception as e:
            raise PropertyViolation(key + "/raises", "dnbinom raised %r" % (e,), case)
        r = mp.log(ref) if log else ref
        _close(a, r, 1e-8, "dnbinom(%r,size=%r,mu=%r,log=%r)" % (x, k, mu, log), key, case)
        _close(b, r, 1e-8, "dnbinom(%r,size=%r,prob=%r,log=%r)" % (x, k, p, log), key, case)
        try:
            R.dnbinom(x, k)
        except Exception:
            pass
        else:
            raise PropertyViolation("C19/dnbinom/no-prob-no-mu", "dnbinom without prob and mu did not raise", case)
        try:
            R.dnbinom(x, k, prob=p, mu=mu)
        except Exception:
            pass
        else:
            raise PropertyViolation("C19/dnbinom/both", "dnbinom with prob and mu did not raise", case)
    elif kind == "r":
        import scipy.stats as ss
        key = "C19/r%s" % fam
        n, seed = case["n"], case["seed"]
        if fam in SEEDED_R:
            try:
                # the global generator is in a known state before the first call and is USED between the two calls (as any
                # simulation or unseeded draw in between would): an integer seed must make the draws independent of it
                np.random.seed((seed * 2654435761 + 7) % (2 ** 32))
                a = _call("r" + fam, fam, n, P, use_def, seed=seed)
                np.random.random(3)
                b = _call("r" + fam, fam, n, P, use_def, seed=seed)
            except Exception as e:
                raise PropertyViolation(key + "/raises", "r%s(n=%d, seed=%d) raised %r" % (fam, n, seed, e), case)
            if np.shape(a) != np.shape(b) or not np.array_equal(np.asarray(a), np.asarray(b)):
                raise PropertyViolation(key + "/seed", "two calls of r%s(%d, %r, seed=%d) differ: %r vs %r" % (
                    fam, n, P, seed, a, b), case)
            arr = np.atleast_1d(np.asarray(a, float))
            if arr.size != n:
                raise PropertyViolation(key + "/size", "r%s(n=%d) returned %d values" % (fam, n, arr.size), case)
            lo, hi = frozen.support()
            if (arr < lo).any() or (arr > hi).any() or (fam in DISCRETE and (arr != np.floor(arr)).any()):
                raise PropertyViolation(key + "/support", "draws %r outside support [%r,%r]" % (arr, lo, hi), case)
            # distributional sanity (detects rate/scale mix-ups): KS against the reference law
            big = np.asarray(_call("r" + fam, fam, 400, P, use_def, seed=seed), float)
            if fam in DISCRETE:
                # KS is not valid with ties: exact binomial tests on P(X <= k) at three cut points
                pval = 1.0
                for lev in (0.25, 0.5, 0.75):
                    k = float(frozen.ppf(lev))
                    pk = float(_ref_cdf(fam, P, k))
                    if 1e-9 < pk < 1 - 1e-9:
                        cnt = int((big <= k).sum())
                        pval = min(pval, ss.binomtest(cnt, big.size, pk).pvalue)
            else:
                cdf = lambda v: np.array([float(_ref_cdf(fam, P, t)) for t in v])  # noqa: E731
                pval = ss.kstest(big, cdf).pvalue
            rec.label("r:law-test-run")
            if pval < 1e-12:
                raise PropertyViolation(key + "/law", "400 draws of r%s(%r) have p-value %.3g against %s" % (
                    fam, P, pval, fam), case)
        else:
            raise Inconclusive("no seeded generator")
    if case.get("vector") and kind in ("d", "p", "m") and count:
        # the same function on an ARRAY of arguments (a time series of counts, in time order - not sorted): entry j must be
        # what the function returns for the j-th argument alone
        import pygom.utilR as R
        xs = []
        for uj in case["vector"]:
            xj = float(frozen.ppf(uj))
            if math.isfinite(xj):
                xs.append(xj if fam in DISCRETE else _sig(xj, 8))
        xs.append(x)
        xs = np.array(xs[::-1] if case.get("vector_reversed") else xs, float)
        if kind == "m":
            k_, p_ = P["size"], P["prob"]
            f_ = lambda v: R.dnbinom(v, k_, mu=k_ * (1 - p_) / p_, log=log)                      # noqa: E731
            name_ = "dnbinom(mu-form)"
        elif fam == "nbinom":
            f_ = lambda v: R.dnbinom(v, P["size"], prob=P["prob"], log=log)                     # noqa: E731
            name_ = "dnbinom"
        else:
            f_ = lambda v: _call(kind + fam, fam, v, P, use_def, log=log)                       # noqa: E731
            name_ = kind + fam
        keyv = "C19/%s/vector" % name_
        rec.label("vectorised-call")
        try:
            vec = np.asarray(f_(xs), float)
            one = np.array([float(f_(float(v))) for v in xs])
        except Exception as e:
            raise PropertyViolation(keyv + "/raises", "%s on the array %r raised %r" % (name_, xs, e), case)
        if vec.shape != xs.shape or not np.allclose(vec, one, rtol=1e-12, atol=0, equal_nan=True):
            raise PropertyViolation(keyv, "%s(%r, %r) = %r but element by element it gives %r" % (name_, xs, P, vec, one), case)
    if case.get("array_params") and kind == "d" and fam in ("norm", "exp", "gamma", "unif", "beta") and count and not use_def:
        # one parameter per observation (arrays of 1200 values), asked twice with arrays that agree at both ends and differ in
        # the middle: every entry belongs to ITS parameter value, in both calls
        n_ = 1200
        key_ = {"norm": "mean", "exp": "rate", "gamma": "rate", "unif": "min", "beta": "shape2"}[fam]
        base_ = float(P[key_])
        alts_ = [base_ + 0.37 * abs(base_) + 0.11, base_ - 0.21 * abs(base_) - 0.07] if fam in ("norm", "unif") else [base_ * 1.7, base_ * 0.6]
        if fam == "unif":
            alts_ = [base_ - 0.5, base_ - 1.25]              # the lower end only moves down: x stays inside the support
        xs_ = np.full(n_, float(x))
        idx_ = [0, n_ // 2, n_ - 1]
        rec.label("array-valued-parameter")
        for alt_ in alts_:
            arr_ = np.full(n_, base_)
            arr_[200:1000] = alt_
            Pa = dict(P)
            Pa[key_] = arr_
            try:
                vec = np.asarray(_call("d" + fam, fam, xs_, Pa, False, log=log), float)
                one = []
                for j_ in idx_:
                    Pj = dict(P)
                    Pj[key_] = float(arr_[j_])
                    one.append(float(_call("d" + fam, fam, float(x), Pj, False, log=log)))
            except Exception as e:
                raise PropertyViolation("C19/d%s/array-parameter/raises" % fam, "d%s with an array-valued %s raised %r" % (fam, key_, e), case)
            if vec.shape != (n_,) or not np.allclose(vec[idx_], one, rtol=1e-12, atol=0, equal_nan=True):
                raise PropertyViolation("C19/d%s/array-parameter" % fam, "d%s(x, %s=<array of %d>) gives %r at entries %s, the scalar calls give %r" % (
                    fam, key_, n_, vec[idx_] if vec.shape == (n_,) else vec.shape, idx_, one), case)
    if nontrivial and count:
        rec.mark_nontrivial(case, dict(case, x=x))
    return x


def _selftest_reference():
    import scipy.stats as ss
    assert abs(float(_ref_cdf("gamma", {"shape": 2.5, "rate": 3.0}, 0.7)) - ss.gamma.cdf(0.7, 2.5, scale=1 / 3.0)) < 1e-12
    assert abs(float(_ref_pdf("nbinom", {"size": 2.5, "prob": 0.3}, 4)) - ss.nbinom.pmf(4, 2.5, 0.3)) < 1e-12
    assert abs(float(_ref_cdf("binom", {"size": 10, "prob": 0.3}, 4)) - ss.binom.cdf(4, 10, 0.3)) < 1e-12
    assert abs(float(_ref_pdf("chisq", {"df": 3.0}, 2.0)) - ss.chi2.pdf(2.0, 3.0)) < 1e-12


SELFTESTS = [_selftest_reference]

TECHNIQUE = "property-based testing (Hypothesis @given) against closed-form mpmath reference distributions; plus coverage-guided fuzzing (atheris/libFuzzer through fuzz_one_input) with the same oracle"
LEVEL_TEXT = ("Exploration: thousands of generated (family, function, parameters, argument, log flag, seed) "
              "cases compared with independently written closed-form densities and distribution functions; "
              "right level because the functions are pure and cheap, so dense sampling of every branch "
              "(family x d/p/q/r x log) is feasible while a proof would need a model of scipy.")
LEVEL_NOTE = "Trusts mpmath special functions at 30 digits; tolerances 1e-9 relative; r-functions judged by same-seed equality, support and a law test at alpha=1e-12."
DESIGN_REF = "DESIGN.md section 3 (C19), section 4 (F10)"
