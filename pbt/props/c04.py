"""C04 - every simulated path is a legal walk of the model's events."""
import numpy as np
from hypothesis import strategies as st

from pbt import ir, strategies as S, stoch
from pbt.harness import PropertyViolation, Inconclusive
from pbt.util import pretty, call

ID = "C04"
TITLE = "Every simulated path is a legal walk of the model's events"
RULE = ("Hypothesis builds bounded-rate event-only models (1-5 states, 1-5 events of 1-3 T/B/D transitions, integer "
        "magnitudes 1-3, including exactly one event and exactly one state; in 3 of 10 cases declared one- and two-sided state limits with a start one firing away from a bound; in some cases magnitudes carried by whole-number parameters and a second simulation on the same object after re-assigning the parameters), integer x0, parameters, NumPy-scalar t0, a "
        "horizon sized for <= ~3000 events, algorithm in {exact, adaptive tau-leap, fixed pre_tau}, 1-3 iterations and a "
        "NumPy seed. Oracle: invariant over each returned raw path with V from the abstract model: starts at (x0,t0), "
        "strictly increasing times, non-negative integer counts (unit vectors in exact mode), X[k+1]-X[k] == V*counts[k] "
        "exactly, consistent lengths, the call returns, and on return the horizon is passed or no event can fire or a "
        "positive-rate event would leave the limits. Non-trivial = >=5 steps and >=2 distinct events fired (or the model has "
        "one event); distinct by case hash.")
ASSUMPTIONS = [
    "initial time is passed as a NumPy scalar (as the documentation's t[0] of a linspace) because _jump calls t0.tolist()",
    "rates are non-negative on all states the limits allow; births use bounded rates (generator construction)",
    "a per-case 60 s safety net turns a runaway simulation into 'inconclusive', never into a violation",
]
BUDGET = {"quick": (4, 220), "thorough": (16, 1500)}
TECHNIQUE = "property-based testing (Hypothesis @given over models, seeds, algorithms) with a path invariant against the abstract model's state-change matrix"
LEVEL_TEXT = ("Exploration over programs, inputs and random streams: each generated path is checked step by step against "
              "the state-change matrix derived independently from the abstract model. Right level: the property is an "
              "invariant of every reachable path and the generator owns the random stream (NumPy global seed).")
LEVEL_NOTE = "Trusts NumPy's seeded global generator for reproducibility of a failing path; establishes no absence."
DESIGN_REF = "DESIGN.md section 3 (C04), section 4 (F3)"


STEP_BUDGET = 400000


def strategy(tier):
    @st.composite
    def case(draw):
        shape = draw(st.sampled_from(["any"] * 4 + ["limits", "limits", "limits", "one-event", "one-state", "one-both"]))
        if shape == "limits":
            # declared per-state limits (one- and two-sided): a legal step may land exactly ON a limit and must be taken
            m = draw(S.event_model(limits=True, max_states=4))
        elif shape == "one-event":
            m = draw(S.event_model(max_events=1))
        elif shape == "one-state":
            m = draw(S.event_model(max_states=1, kinds="BD", allow_range=False))
        elif shape == "one-both":
            m = draw(S.event_model(max_states=1, max_events=1, kinds="BD", allow_range=False))
        else:
            m = draw(S.event_model())
        setup = draw(S.stochastic_setup(m, x_hi=(12 if shape == "limits" else 40)))
        if shape == "limits" and draw(st.booleans()):
            # start one step away from a declared bound, so that the very next firing of some event lands exactly on it
            names = ir.state_names(m)
            lims = ir.state_limits(m)
            cands = []
            for ev in m["events"]:
                net = {}
                for tr in ev["trans"]:
                    k = tr["mag"]["int"]
                    if tr["kind"] in ("T", "D"):
                        net[tr["o"]] = net.get(tr["o"], 0) - k
                    if tr["kind"] in ("T", "B"):
                        net[tr["d"]] = net.get(tr["d"], 0) + k
                for nm, dlt in net.items():
                    lo, hi = lims[names.index(nm)]
                    if dlt > 0 and hi is not None:
                        cands.append((nm, hi - dlt))
                    if dlt < 0 and lo is not None:
                        cands.append((nm, lo - dlt))
            if cands:
                nm, v = draw(st.sampled_from(cands))
                lo, hi = lims[names.index(nm)]
                if (lo is None or v >= lo) and (hi is None or v <= hi):
                    x0 = list(setup["x0"])
                    x0[names.index(nm)] = int(v)
                    setup = dict(setup, x0=x0)
        algo = draw(st.sampled_from(["exact", "tau", "tau", "pre_tau"]))
        a = {"exact": algo == "exact", "pre_tau": None, "epsilon": None}
        if algo == "pre_tau":
            a["pre_tau"] = draw(st.sampled_from([0.01, 0.05, 0.2, 1.0])) / setup.get("clock", 1.0)
        if shape == "any" and draw(st.integers(0, 4)) == 0:
            # a magnitude that is the current value of a state ('the whole compartment leaves at once'): the state-change
            # matrix then depends on the state and has to be evaluated at every step
            names_ = ir.state_names(m)
            tgt = draw(st.sampled_from(names_))
            m = dict(m, events=m["events"] + [{"rate": ir.C(S.sig(draw(S.fl(0.05, 0.6, 2)) * setup.get("clock", 1.0), 3)), "rate_kind": "const",
                                               "trans": [{"kind": "D", "o": tgt, "d": None, "mag": {"state": tgt}}]}])
        c = {"model": m, "setup": setup, "algo": a, "iters": draw(st.integers(1, 3))}
        state_mag = any("state" in t["mag"] for e in m["events"] for t in e["trans"])
        if shape == "any" and not state_mag and draw(st.integers(0, 3)) == 0:
            # magnitudes carried by parameters and a second simulation on the same object after re-assigning the parameters
            pm = draw(S.parametrise_magnitudes(m, setup))
            if pm is not None:
                c["model"], c["setup"], theta_alt = pm
                c["second"] = {"theta": theta_alt, "np_seed": draw(st.integers(0, 2 ** 32 - 1))}
        return c
    return case()


def oracle(case, rec):
    m, su = case["model"], case["setup"]
    model, order = stoch.prepare(m, su)
    stoch.configure(model, case["algo"])
    stoch.limit_steps(model, STEP_BUDGET if case["algo"]["exact"] else 60000)
    _check_run(case, rec, model, order, su, "")
    sec = case.get("second")
    if sec:
        rec.label("second-call-after-parameter-change")
        su2 = dict(su, theta=sec["theta"], np_seed=sec["np_seed"])
        model.parameters = list(su2["theta"])
        model.initial_values = (list(su2["x0"]), np.float64(su2["t0"]))
        _check_run(case, rec, model, order, su2, "second-call/")


def _check_run(case, rec, model, order, su, tag):
    m, algo = case["model"], case["algo"]
    names = ir.state_names(m)
    n_s, n_e = len(names), len(m["events"])
    state_mag = any("state" in t["mag"] for e in m["events"] for t in e["trans"])
    V = stoch.V_at(m, su["x0"], su["theta"], order) if state_mag else stoch.V_int(m, su["theta"], order)
    V_of = (lambda x: stoch.V_at(m, x, su["theta"], order)) if state_mag else None
    if state_mag:
        rec.label("magnitude:state-valued")
    lims = ir.state_limits(m)
    t_end = su["t0"] + su["horizon"]
    which = "exact" if algo["exact"] else ("pre_tau" if algo["pre_tau"] else "tau")
    rec.label("algo:" + which, "nS:%d" % n_s, "nE:%d" % n_e)
    key = "C04/" + tag + which
    try:
        out = stoch.simulate("C04", key, case, stoch.run_raw, model, t_end, case["iters"], algo["exact"], su["np_seed"])
    except stoch.StepBudget:
        if algo["exact"]:
            # deterministic, count-based: the horizon was sized for <= ~3000 expected events per path
            raise PropertyViolation(key + "/does-not-return", "exact simulation took more than %d steps for a horizon "
                                    "sized for about 3000 events: the simulation does not return" % STEP_BUDGET, case)
        raise Inconclusive("tau-leap step budget")
    try:
        Xs, Cs, Ts = out
    except Exception:
        raise PropertyViolation(key + "/return", "solve_stochast(full_output=True) returned %r" % (type(out),), case)
    if len(Xs) != case["iters"] or len(Cs) != case["iters"] or len(Ts) != case["iters"]:
        raise PropertyViolation(key + "/iterations", "asked for %d runs, got %d/%d/%d" % (case["iters"], len(Xs), len(Cs), len(Ts)), case)
    nontrivial = False
    for X, Cn, T in zip(Xs, Cs, Ts):
        steps, fired = stoch.check_path(key, case, X, Cn, T, su["x0"], su["t0"], V, algo["exact"], V_of)
        # termination: horizon passed, or nothing can fire, or a positive-rate event would leave the limits
        t_last, x_last = float(np.asarray(T)[-1]), np.asarray(X)[-1]
        if t_last < t_end:
            rates = stoch.rates_at(m, x_last, t_last, su["theta"], order)
            V_last = V_of(x_last) if V_of is not None else V
            blocked = [j for j in range(n_e) if rates[j] > 0 and not stoch.within(x_last + V_last[:, j], lims)]
            if (rates > 0).any() and not blocked:
                raise PropertyViolation(key + "/premature-return", "path stopped at t=%r < %r in state %s although events "
                                        "with rates %s can fire legally" % (t_last, t_end, x_last, rates), case)
            rec.label("stop:extinct" if not (rates > 0).any() else "stop:blocked")
        else:
            rec.label("stop:horizon")
        if steps >= 5 and (len(fired) >= 2 or n_e == 1):
            nontrivial = True
    if any(d.get("lims") is not None for d in m["state_decl"] if "range" not in d):
        rec.label("shape:declared-limits")
    if n_e == 1:
        rec.label("shape:one-event")
    if n_s == 1:
        rec.label("shape:one-state")
    if nontrivial:
        rec.mark_nontrivial(case, {"model": pretty(m), "setup": su, "algo": algo})
