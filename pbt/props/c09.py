"""C09 - parameter values are bound to the parameters they were given for (inputs + histories)."""
import copy
import math

import numpy as np
from hypothesis import strategies as st
from hypothesis.stateful import rule, initialize, precondition

from pbt import ir, jets, render, strategies as S, machines
from pbt.harness import PropertyViolation, Inconclusive
from pbt.util import pretty

ID = "C09"
TITLE = "Parameter values are bound to the parameters they were given for"
RULE = ("Hypothesis rule-based state machine over one live model and a plain dict name -> value. Models: 'probe' models with "
        "1-5 parameters where state i grows at rate p_perm(i) (ode returns the bound values, grad a permutation matrix) and "
        "general grammar models (1-5 parameters). Rules: assign by ordered list / tuple / 1-D array / (n,1) array with float, "
        "int or NumPy scalars; list or tuple of (name, value) pairs in a generated permutation; dict keyed by str, by "
        "sympy.Symbol or mixed, in a generated key order; partial dict over a generated subset; bad inputs: dict / pair list "
        "with an unknown name (str or Symbol, at a generated position), dict with too many entries, list / tuple / array / "
        "pair list of wrong length (shorter, longer, empty), wrong-size 2-D array. Oracle: every bad input raises (any "
        "exception type); after every step ode(x,t) and grad(x,t) at a generated point equal the values computed from the "
        "abstract model with the dict's values, entry by entry for every entry that depends only on parameters whose value is "
        "specified (names mentioned in a rejected call become unspecified until assigned again). In part of the histories a SECOND "
        "model object is made from the live one after >=1 assignment (copy.deepcopy, or get_unrolled_obj for probe models entered as ode= strings) "
        "and the later operations address either object; after every step BOTH objects are observed, each against its own dict "
        "(a deep copy starts with the original's values, an unrolled object with none specified). Non-trivial = >=3 parameters "
        "and (a non-identity permutation, or a partial update after a full assignment in a different format); distinct by "
        "operation-sequence hash.")
ASSUMPTIONS = [
    "accepted forms are the ones the statement lists; a bare number or a single (name, value) tuple for a one-parameter model, None, "
    "(1,n) arrays and pair lists with a duplicated name are not generated (the statement says nothing about them)",
    "pair names are strings (a sympy.Symbol as pair name is rejected by the code today and the statement lists symbols for dict keys only)",
    "after a rejected call the names it mentioned (all names for positional input) are treated as unspecified until assigned again, so "
    "a half-applied rejected update can never raise an alarm",
    "lambdify back-end",
]
BUDGET = {"quick": (4, 120), "thorough": (16, 1500)}
STEPS = 12
# coverage-guided campaigns: (corpus mode, seed offset); libFuzzer runs per campaign
FUZZ = {"quick": {"runs": 1500, "campaigns": [("empty", 0), ("seeded", 1)]},
        "thorough": {"runs": 40000, "campaigns": [("empty", 0), ("empty", 1)] + [("seeded", 2 + i) for i in range(6)]}}
ENGINE = "hypothesis"
TECHNIQUE = ("stateful property-based testing (Hypothesis RuleBasedStateMachine over successive assignments in mixed formats, partial "
             "updates and rejected inputs) against a dict reference model observed through ode/grad; plus coverage-guided fuzzing "
             "(atheris/libFuzzer through fuzz_one_input) of whole assignment histories with the same oracle")
LEVEL_TEXT = ("Exploration over assignment histories: the reference model is a plain name->value dict; every accepted form, permutation "
              "and subset is generated, and the binding is observed through evaluations after every step. Right level: mis-binding "
              "depends on the order and format of earlier assignments (string keys vs symbol keys in the same map), i.e. on histories.")
LEVEL_NOTE = "Observes bindings only through ode/grad of models in which each parameter is visible; bounded history length."
DESIGN_REF = "DESIGN.md section 3 (C09)"

UNKNOWN_NAMES = ["zz", "nope", "q9", "Beta", "gamm", "mu2"]


def probe_model(n, perm):
    states = ["x%d" % i for i in range(n)]
    pool = ["beta", "gamma", "mu", "kappa", "alpha", "rho"]
    params = pool[:n]
    events = [{"rate": ir.P(params[perm[i]]), "rate_kind": "const",
               "trans": [{"kind": "B", "o": None, "d": states[i], "mag": {"int": 1}, "birth_by": "destination"}]}
              for i in range(n)]
    return {"state_decl": [{"name": s, "lims": None} for s in states], "state_style": "list", "params": params,
            "param_style": "list", "derived": [], "events": events, "odes": [], "probe": True}


class World:
    def __init__(self, rec):
        self.rec = rec
        self.m = None
        self.model = None
        self.vals = {}           # name -> float | None (unspecified)
        self.last_full_form = None
        self.nontrivial = False
        self.n_ops = 0
        self.slots = []          # a second model object derived from the first (deep copy / get_unrolled_obj): each has its own values
        self.cur = 0

    def _select(self, i):
        if self.slots:
            self.slots[self.cur] = {"model": self.model, "vals": self.vals, "last_full_form": self.last_full_form}
            sl = self.slots[i]
            self.model, self.vals, self.last_full_form = sl["model"], sl["vals"], sl["last_full_form"]
            self.cur = i

    def _spawn(self, op):
        """A second model object made FROM the live one; from then on both are used side by side and each must keep the
        values given to IT."""
        from pygom.model import ode_utils
        how = op["how"]
        self.rec.label("spawn:" + how)
        try:
            if how == "unrolled":
                other = self.model.get_unrolled_obj()
                other._SC = ode_utils.compileCode(backend="lambda")
                # the statement of get_unrolled_obj promises the same states and parameters, not their values: whatever the
                # new object holds is unspecified until assigned
                ovals = {p: None for p in self.m["params"]}
            else:
                other = copy.deepcopy(self.model)
                ovals = dict(self.vals)
        except Exception as e:
            # making the second object is not what this property is about (get_unrolled_obj refuses a one-state model today)
            raise Inconclusive("spawn/%s raised %s" % (how, type(e).__name__))
        self.slots = [{"model": self.model, "vals": self.vals, "last_full_form": self.last_full_form},
                      {"model": other, "vals": ovals, "last_full_form": None if how == "unrolled" else self.last_full_form}]
        self.cur = 0

    def apply(self, op):
        self.n_ops += 1
        kind = op["op"]
        if kind == "spawn":
            self._spawn(op)
            return
        if self.slots:
            self._select(int(op.get("on", 0)) % len(self.slots))
            self.rec.label("two-objects:%s-on-%s" % (kind, "original" if self.cur == 0 else "derived"))
        if kind == "init":
            self.m = copy.deepcopy(op["model"])
            try:
                self.model, _o = render.build(copy.deepcopy(self.m), as_ode=bool(self.m.get("as_ode")))
            except Exception as e:
                raise PropertyViolation("C09/construct/" + type(e).__name__, "constructing the model raised %r" % (e,), None)
            self.vals = {p: None for p in self.m["params"]}
            self.rec.label("init:" + ("probe" if self.m.get("probe") else "general"), "init:nP=%d" % len(self.m["params"]))
            return
        if kind == "assign":
            self._assign(op)
        elif kind == "bad":
            self._bad(op)
        elif kind == "assign_random":
            self._assign_random(op)
        self._observe(op)
        if self.slots:
            # the object the operation was NOT addressed to still evaluates with its own values
            tgt = self.cur
            self._select(1 - tgt)
            try:
                self._observe(op, other=True)
            finally:
                self._select(tgt)

    # ---- building the argument
    @staticmethod
    def _value(v, vtype):
        if vtype == "int":
            return int(v)
        if vtype == "np":
            return np.float64(v)
        return float(v)

    def _argument(self, op):
        import sympy
        form = op["form"]
        names, values = op["names"], [self._value(v, op.get("vtype", "float")) for v in op["values"]]
        if form == "list":
            return list(values)
        if form == "tuple":
            return tuple(values)
        if form == "array":
            return np.array(values, float)
        if form == "array_col":
            return np.array(values, float).reshape(-1, 1)
        if form == "array_2d":
            return np.array(values, float).reshape(op["shape"])
        if form == "pairs":
            return [(n, v) for n, v in zip(names, values)]
        if form == "pairs_tuple":
            return tuple((n, v) for n, v in zip(names, values))
        keykinds = op.get("keykinds") or ["str"] * len(names)
        out = {}
        for n, v, k in zip(names, values, keykinds):
            out[sympy.Symbol(n) if k == "sym" else n] = v
        return out

    def _assign(self, op):
        form = op["form"]
        self.rec.label("assign:" + form + ("/" + "+".join(sorted(set(op.get("keykinds") or []))) if form in ("dict", "partial") else ""))
        arg = self._argument(op)
        try:
            self.model.parameters = arg
        except Exception as e:
            raise PropertyViolation("C09/assign/%s/raises" % form, "accepted form %s raised %s: %s (names %s)" % (
                form, type(e).__name__, str(e)[:200], op["names"]), None)
        # the caller goes on using its own container (a work vector scaled for the next model of a sweep, a dict updated
        # for the next run): the model keeps the values it was GIVEN
        if isinstance(arg, np.ndarray) and arg.dtype.kind == "f":
            arg *= 4.0
            arg += 1.0
            self.rec.label("assign:caller-reuses-its-array-afterwards")
        elif isinstance(arg, list) and arg and not isinstance(arg[0], tuple):
            for i_ in range(len(arg)):
                arg[i_] = arg[i_] * 4 + 1
        elif isinstance(arg, dict):
            for k_ in list(arg):
                if isinstance(arg[k_], (int, float, np.floating)):
                    arg[k_] = arg[k_] * 4 + 1
        for n, v in zip(op["names"], op["values"]):
            self.vals[n] = float(self._value(v, op.get("vtype", "float")))
        params = self.m["params"]
        full = len(op["names"]) == len(params)
        if len(params) >= 3:
            if full and op["names"] != params and form in ("pairs", "pairs_tuple", "dict"):
                self.nontrivial = True
                self.rec.label("nontrivial:permuted-names")
            if form == "partial" and self.last_full_form is not None:
                self.nontrivial = True
                self.rec.label("nontrivial:partial-after-" + self.last_full_form)
        if full:
            self.last_full_form = form if form != "partial" else "dict"

    def _assign_random(self, op):
        import scipy.stats as ss
        from pygom.utilR import runif
        arg = {}
        for n, sp in zip(op["names"], op["spec"]):
            if sp["kind"] == "frozen-uniform":
                arg[n] = ss.uniform(loc=sp["a"], scale=sp["b"])
            elif sp["kind"] == "frozen-gamma":
                arg[n] = ss.gamma(a=4.0, scale=sp["a"] / 4.0)
            else:
                arg[n] = (runif, (sp["a"], sp["a"] + sp["b"]))
        self.rec.label("assign:partial-random" + ("+solve" if op.get("solve") else ""))
        np.random.seed(12345 + self.n_ops)
        try:
            self.model.parameters = arg
            if op.get("solve") and self.m.get("probe"):
                # a deterministic solve re-draws the random parameters; the fixed ones must survive it
                self.model.initial_values = ([1.0] * len(ir.state_names(self.m)), 0.0)
                self.model.solve_determ([0.5, 1.0], 1)
        except Exception as e:
            raise PropertyViolation("C09/assign/partial-random/raises", "partial dict with distribution values raised %s: %s" % (
                type(e).__name__, str(e)[:200]), None)
        for n in op["names"]:
            self.vals[n] = None          # a random draw: not a value the history specifies

    def _bad(self, op):
        self.rec.label("bad:" + op["kind"])
        arg = self._argument(op)
        try:
            self.model.parameters = arg
        except Exception:
            pass
        else:
            raise PropertyViolation("C09/bad/%s/accepted" % op["kind"], "invalid input (%s, form %s, names %s) was accepted "
                                    "without an error" % (op["kind"], op["form"], op["names"]), None)
        # whatever a rejected call mentioned is no longer specified by the history
        mentioned = op["names"] if op["form"] in ("dict", "partial", "pairs", "pairs_tuple") else list(self.m["params"])
        for n in mentioned:
            if n in self.vals:
                self.vals[n] = None

    def _observe(self, op, other=False):
        m = self.m
        params = m["params"]
        if all(self.vals[p] is None for p in params):
            return
        if not hasattr(self.model, "_parameters"):
            return                      # nothing has ever been accepted: evaluation is documented to refuse
        if not m.get("probe") and any(self.vals[p] is None for p in params):
            # an unspecified parameter sits at the default 0, where a generated rate may be singular (division by N);
            # general models are observed only when every parameter has a value given by the history
            self.rec.label("observe-skipped:general-model-with-unspecified-parameter")
            return
        theta = [float("nan") if self.vals[p] is None else self.vals[p] for p in params]
        x, t = op["x"], op["t"]
        n_s, n_p = len(x), len(params)
        d = ir.derivatives(m, list(x), float(t), theta)
        try:
            f = np.asarray(self.model.ode(x, t), float).reshape(n_s)
            G = np.asarray(self.model.grad(x, t), float).reshape(n_s, n_p)
        except Exception as e:
            raise PropertyViolation("C09/evaluate/raises", "ode/grad raised %s after step %d (%s): %s" % (
                type(e).__name__, self.n_ops, op["op"], str(e)[:200]), None)
        checked = 0
        for what, got, ref in (("ode", f, d["f"]), ("grad", G, d["G"])):
            mask = np.isfinite(ref)
            checked += int(mask.sum())
            scale = np.maximum(np.abs(ref), np.abs(got))
            finite = ref[mask]
            floor = 1e-12 * (1 + (float(np.abs(finite).max()) if finite.size else 0.0))
            bad = mask & ~(np.abs(got - ref) <= 1e-9 * scale + floor)
            if bad.any():
                i = tuple(int(k) for k in np.argwhere(bad)[0])
                raise PropertyViolation("C09/%s/wrong-binding%s" % (what, "/other-object" if other else ""),
                                        "%s(x,t)%s = %.15g but the values assigned by name give "
                                        "%.15g (values by name: %s)%s" % (what, list(i), got[i], ref[i], self.vals,
                                                                          " [the model object the last operation was not addressed to]" if other else ""), None)
        if checked == 0:
            return
        if self.nontrivial and not getattr(self, "marked", False):
            self.marked = True
            self.rec.mark_nontrivial({"m": m, "n": self.n_ops, "vals": self.vals},
                                     {"definition": pretty(m), "last_operation": {k: v for k, v in op.items() if k not in ("x", "t")},
                                      "values_by_name": dict(self.vals)})


# ------------------------------------------------------------------------------------------------ generation
# Every operation is drawn by a pure function of (draw, model IR, accepted_before): the state machine passes data.draw,
# the @given history strategy (used by the coverage-guided campaign) passes the composite's draw.
def _point(draw, m):
    n_s = len(ir.state_names(m))
    return [draw(S.fl(0.1, 20.0)) for _ in range(n_s)], draw(S.fl(0.0, 20.0))


def _vals(draw, names, zero_ok=False, scale=1.0):
    vtype = draw(st.sampled_from(["float", "float", "int", "np"]))
    if scale != 1.0:
        # a history at a tiny parameter scale: every value and every change between assignments is far below 1e-8
        return "float", [S.sig(draw(S.fl(0.05, 5.0)) * scale, 4) for _ in names]
    if vtype == "int":
        vals = [draw(st.integers(0 if zero_ok else 1, 9)) for _ in names]
    else:
        vals = [draw(S.fl(0.05, 5.0)) for _ in names]
        if zero_ok:
            # a parameter switched off: exactly zero is a value like any other
            vals = [0.0 if draw(st.integers(0, 5)) == 0 else v for v in vals]
    return vtype, vals


def gen_model(draw):
    if draw(st.integers(0, 9)) < 6:
        n = draw(st.sampled_from([1, 2, 3, 3, 4, 5]))
        m = probe_model(n, list(draw(st.permutations(list(range(n))))))
        m["pscale"] = draw(st.sampled_from([1.0, 1.0, 1.0, 1.0, 1e-9]))
        m["as_ode"] = draw(st.booleans())          # entered as explicit ode= strings (get_unrolled_obj exists for those)
        return m
    return draw(S.general_model(max_states=3, max_events=3, allow_range=False))


def gen_assign_partial_random(draw, m):
    """A partial dict whose values are distributions (frozen scipy objects / (sampler, args)): the names it mentions take a
    random value, every other name must keep what it had."""
    params = m["params"]
    names = draw(st.lists(st.sampled_from(params), min_size=1, max_size=max(1, len(params) - 1), unique=True))
    spec = [{"kind": draw(st.sampled_from(["frozen-uniform", "frozen-gamma", "tuple-runif"])),
             "a": draw(S.fl(0.2, 1.0, 3)), "b": draw(S.fl(0.1, 0.5, 3))} for _ in names]
    op = {"op": "assign_random", "names": names, "spec": spec, "solve": draw(st.booleans())}
    op["x"], op["t"] = _point(draw, m)
    return op


def gen_assign_positional(draw, m):
    names = list(m["params"])
    form = draw(st.sampled_from(["list", "tuple", "array", "array_col"]))
    vtype, vals = _vals(draw, names, zero_ok=bool(m.get("probe")), scale=m.get("pscale", 1.0))
    if form.startswith("array"):
        vtype = "float"
    x, t = _point(draw, m)
    return {"op": "assign", "form": form, "names": names, "values": vals, "vtype": vtype, "x": x, "t": t}


def gen_assign_named(draw, m):
    names = list(draw(st.permutations(m["params"])))
    form = draw(st.sampled_from(["pairs", "pairs", "pairs_tuple", "dict", "dict", "dict"]))
    vtype, vals = _vals(draw, names, zero_ok=bool(m.get("probe")), scale=m.get("pscale", 1.0))
    op = {"op": "assign", "form": form, "names": names, "values": vals, "vtype": vtype}
    if form == "dict":
        op["keykinds"] = [draw(st.sampled_from(["str", "sym"])) for _ in names]
    op["x"], op["t"] = _point(draw, m)
    return op


def gen_assign_partial(draw, m, among=None):
    params = m["params"]
    names = draw(st.lists(st.sampled_from(among or params), min_size=1, max_size=max(1, len(among or params) - (0 if among else 1)), unique=True))
    vtype, vals = _vals(draw, names, zero_ok=bool(m.get("probe")), scale=m.get("pscale", 1.0))
    op = {"op": "assign", "form": "partial", "names": names, "values": vals, "vtype": vtype,
          "keykinds": [draw(st.sampled_from(["str", "sym"])) for _ in names]}
    op["x"], op["t"] = _point(draw, m)
    return op


def gen_bad(draw, m):
    params = m["params"]
    n = len(params)
    kind = draw(st.sampled_from(["unknown-name-dict", "unknown-name-pairs", "too-many-dict", "wrong-length-positional",
                                 "wrong-length-pairs", "wrong-size-2d"]))
    op = {"op": "bad", "kind": kind, "vtype": "float"}
    unknown = draw(st.sampled_from(UNKNOWN_NAMES))
    if kind == "unknown-name-dict":
        k = draw(st.integers(0, n - 1))
        names = list(draw(st.permutations(params)))[:k]
        names.insert(draw(st.integers(0, len(names))), unknown)
        op.update(form="dict", names=names, keykinds=[draw(st.sampled_from(["str", "sym"])) for _ in names])
    elif kind == "unknown-name-pairs":
        names = list(draw(st.permutations(params)))
        names[draw(st.integers(0, n - 1))] = unknown
        op.update(form="pairs", names=names)
    elif kind == "too-many-dict":
        names = list(draw(st.permutations(params)))
        extra = draw(st.lists(st.sampled_from(UNKNOWN_NAMES), min_size=1, max_size=2, unique=True))
        for e in extra:
            names.insert(draw(st.integers(0, len(names))), e)
        op.update(form="dict", names=names, keykinds=["str"] * len(names))
    elif kind == "wrong-length-positional":
        k = draw(st.sampled_from([0, max(n - 1, 0), n + 1, n + 2]).filter(lambda v: v != n))
        op.update(form=draw(st.sampled_from(["list", "tuple", "array"])), names=["#%d" % i for i in range(k)])
    elif kind == "wrong-length-pairs":
        names = list(draw(st.permutations(params)))
        if n >= 2 and draw(st.booleans()):
            names = names[:-1]
        else:
            names = names + [draw(st.sampled_from(params))]
        op.update(form="pairs", names=names)
    else:
        shape = draw(st.sampled_from([(n, 2), (n, 3), (2, n + 1), (n + 1, 1)]))
        op.update(form="array_2d", shape=list(shape), names=["#%d" % i for i in range(shape[0] * shape[1])])
    op["values"] = [draw(S.fl(0.05, 5.0)) for _ in op["names"]]
    op["x"], op["t"] = _point(draw, m)
    return op


def gen_spawn(draw, m):
    hows = ["deepcopy"] + (["unrolled", "unrolled"] if m.get("as_ode") and len(m["params"]) >= 2 else [])
    return {"op": "spawn", "how": draw(st.sampled_from(hows))}


def history_strategy(tier, max_ops=10):
    """A whole history as one value (for @given-style engines such as the coverage-guided campaign)."""
    @st.composite
    def hist(draw):
        m = gen_model(draw)
        ops = [{"op": "init", "model": m}]
        two = False
        for _ in range(draw(st.integers(1, max_ops))):
            kind = draw(st.sampled_from(["positional", "named", "named", "partial", "partial", "bad", "random", "spawn"]))
            if kind == "spawn":
                if two or len(ops) < 2:
                    continue
                two = True
                ops.append(gen_spawn(draw, m))
                continue
            if kind == "random" and not m.get("probe"):
                kind = "partial"
            if two and kind == "partial" and len(m["params"]) >= 2 and draw(st.booleans()):
                first = draw(st.integers(0, 1))
                a = gen_assign_partial(draw, m)
                a["on"] = first
                ops.append(a)
                rest = [p for p in m["params"] if p not in a["names"]]
                if rest:
                    b = gen_assign_partial(draw, m, among=rest)
                    b["on"] = 1 - first
                    ops.append(b)
                continue
            # (a partial dict is accepted as the very first assignment as well)
            gen = {"positional": gen_assign_positional, "named": gen_assign_named, "partial": gen_assign_partial, "bad": gen_bad,
                   "random": gen_assign_partial_random}[kind]
            op = gen(draw, m)
            if two:
                op["on"] = draw(st.integers(0, 1))
            ops.append(op)
        return {"ops": ops}
    return hist()


def oracle(case, rec):
    """Plain oracle over a whole history (used by --replay and by the coverage-guided campaign)."""
    machines.replay_ops(World, case, rec)


# ------------------------------------------------------------------------------------------------ machine
def machine(tier, rec, ctl):
    class C09Machine(machines.Base):
        WORLD = World

        def do(self, op, data=None):
            if data is not None and self.world is not None and self.world.slots:
                op["on"] = data.draw(st.integers(0, 1))
            return super().do(op)

        @precondition(lambda self: self.dead or (self.world is not None and not self.world.slots and self.world.n_ops >= 2))
        @rule(data=st.data())
        def spawn(self, data):
            """A second object made from the live model (deep copy, or get_unrolled_obj for ODE-defined models)."""
            if self.dead:
                return
            self.do(gen_spawn(data.draw, self.world.m))

        @initialize(data=st.data())
        def init(self, data):
            self.do({"op": "init", "model": gen_model(data.draw)})

        @precondition(lambda self: self.dead or (self.world is not None and self.world.slots and len(self.world.m["params"]) >= 2))
        @rule(data=st.data())
        def cross_partial(self, data):
            """Two objects side by side: a partial update on one, then a partial update on the other that does not mention
            the same names - each keeps its own earlier values for what its update left out."""
            if self.dead:
                return
            first = data.draw(st.integers(0, 1))
            a = gen_assign_partial(data.draw, self.world.m)
            a["on"] = first
            rest = [p for p in self.world.m["params"] if p not in a["names"]]
            if not self.do(a) or not rest:
                return
            b = gen_assign_partial(data.draw, self.world.m, among=rest)
            b["on"] = 1 - first
            self.do(b)

        @precondition(lambda self: self.dead or (self.world is not None))
        @rule(data=st.data())
        def assign_positional(self, data):
            if self.dead:
                return
            self.do(gen_assign_positional(data.draw, self.world.m), data)

        @precondition(lambda self: self.dead or (self.world is not None))
        @rule(data=st.data())
        def assign_named(self, data):
            if self.dead:
                return
            self.do(gen_assign_named(data.draw, self.world.m), data)

        @precondition(lambda self: self.dead or (self.world is not None))
        @rule(data=st.data())
        def assign_partial(self, data):
            """Also as the very first assignment: a partial dict is accepted then too (the rest stays at its default)."""
            if self.dead:
                return
            self.do(gen_assign_partial(data.draw, self.world.m), data)

        @precondition(lambda self: self.dead or (self.world is not None and hasattr(self.world.model, "_parameters")
                                                 and self.world.m.get("probe")))
        @rule(data=st.data())
        def assign_partial_random(self, data):
            if self.dead:
                return
            self.do(gen_assign_partial_random(data.draw, self.world.m), data)

        @precondition(lambda self: self.dead or (self.world is not None))
        @rule(data=st.data())
        def bad_input(self, data):
            if self.dead:
                return
            self.do(gen_bad(data.draw, self.world.m), data)

    C09Machine.rec = rec
    C09Machine.ctl = ctl
    return C09Machine


def replay(case, rec):
    machines.replay_ops(World, case, rec)


SELFTESTS = [jets.selftest]
