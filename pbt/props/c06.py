"""C06 - cost is the stated loss of the model trajectory against the data."""
import numpy as np
from hypothesis import strategies as st

from pbt import ir, lossgen, refsolve, jets, refdist, strategies as S
from pbt.harness import PropertyViolation, Inconclusive
from pbt.util import call

ID = "C06"
TITLE = "Cost is the stated loss of the model trajectory against the data"
RULE = ("Hypothesis builds a benign ODE model (linear chains, epidemic mass-action models, saturating interactions; optional periodic "
        "forcing; in 1 of 4 cases a pygom.common_models entry - SIR_norm, SIS, SIR, SEIR, Lotka_Volterra, FitzHugh - with a hand-written "
        "abstract mirror), the inputs in a generated container/dtype form (float or integer typed time grid with a possibly fractional t0, "
        "list / array / int-array data, list / array / tuple x0), parameters theta*, x0, t0, an observation grid of 2-12 times, an observed-state selection (one name as str, a 1-list, or "
        "several names in a generated order), the loss class with scalar / per-state / per-observation spread, weights (Square, Normal), an "
        "optional target_param subset, evaluation parameters theta != theta* and data = reference trajectory at theta* (optionally perturbed; "
        "rounded to positive integers for count losses). In a third of the cases a twin loss object built from the very same x0 / time / data objects is evaluated at the end. In a quarter of the cases a second loss object (another data set: other parameters, initial state, times) is built on the same model object and evaluates its cost before each of our calls. Oracle: trajectory from an independent integrator on the abstract model's own "
        "right-hand side (two references must agree), selected columns in the given order, then the class formula (mpmath reference "
        "log-densities): |cost - ref| <= 1e-5(1+|ref|); residual(theta) elementwise; costIV([theta, x0']) from x0'; square loss at theta* with "
        "unperturbed data <= 1e-10*n*(1+max|y|)^2. Non-trivial = (>=2 observed states not in declaration order, or a target_param subset, or "
        "non-scalar spread/weights) and a non-constant trajectory in every observed state; distinct by case hash.")
ASSUMPTIONS = [
    "trajectories are well-conditioned (conditioning measured per case; amplification > 20 or disagreeing references => inconclusive)",
    "count losses receive integer data, spreads and weights are positive",
    "a weight/spread vector of length p is per-state (the code's reading when n == p as well)",
    "costIV is not called when len(target_param)+nS == nP: the input validation documents that length as ambiguous and rejects it",
]
BUDGET = {"quick": (4, 150), "thorough": (16, 900)}
TECHNIQUE = "property-based testing (Hypothesis @given) against an independent ODE integrator on the abstract model plus closed-form loss formulas"
LEVEL_TEXT = ("Exploration over models, selections, loss classes and spread/weight forms; the oracle recomputes trajectory and loss "
              "independently of PyGOM (own RHS evaluator, scipy solve_ivp, mpmath densities).")
LEVEL_NOTE = "Errors below 1e-5 relative are invisible (the statement says 'within solver tolerance')."
DESIGN_REF = "DESIGN.md section 3 (C06), section 4 (F1)"


def strategy(tier):
    @st.composite
    def case(draw):
        c = draw(lossgen.loss_case(target_param="subset-ordered", target_state=True, catalogue=1))
        # order of the calls on the one loss object: costIV before or after cost/residual
        c["iv_first"] = draw(st.booleans())
        # cost() / residual() with theta left at its default, after someone else (the user running a simulation, another loss
        # object on the same model) has written other values into the shared model's parameters
        c["default_theta_after_foreign_write"] = draw(st.integers(0, 3)) == 0
        c["foreign_factors"] = [draw(st.sampled_from([0.5, 0.8, 1.3, 2.0])) for _ in c["model"]["params"]]
        # a second loss object (another data set) built on the same model object and evaluated in between
        c["companion"] = draw(st.integers(0, 3)) == 0
        # a twin: a second loss object of the same kind built from the very same input objects (x0 array, time array, data
        # array) on the same model; it is evaluated after everything we did to the first one
        c["twin"] = draw(st.integers(0, 2)) == 0
        c["iv_twice"] = draw(st.booleans())
        return c
    return case()


def _well_conditioned(case, y, yhat, traj, ref):
    """'Within solver tolerance': a solver error of 1e-8 relative to the largest state, pushed through the loss derivative,
    must stay below a tenth of the comparison tolerance - otherwise (predictions decayed to ~1e-6 under a log-type loss) the
    cost amplifies the integrators' absolute error and the case cannot be decided at 1e-5."""
    dl = lossgen.ref_dloss(case, y, yhat)
    amplified = 1e-8 * (1 + float(np.abs(traj).max())) * float(np.abs(dl).sum())
    if amplified > 1e-6 * (1 + abs(ref)):
        raise Inconclusive("loss amplifies solver error")


def _check_costIV(case, rec, obj, key, m, su, names, y, th, free, times, cols):
    """costIV([free parameters, free initial values in target_state order])."""
    ts = case.get("target_state")
    ts_names = ts or names
    n_in = len(free) + len(ts_names)
    # input lengths the validation documents as ambiguous are rejected by design
    if (case["target_param"] is not None and ts is None and n_in == len(m["params"])) or \
       (case["target_param"] is None and ts is not None and n_in == len(ts_names)):
        return
    x0e = list(su["x0"])
    for s_ in ts_names:
        x0e[names.index(s_)] = case["x0_eval"][names.index(s_)]
    traj2 = lossgen.reference_traj(m, th, x0e, su["t0"], times)
    yhat2 = traj2[:, cols]
    if (yhat2 <= 1e-9).any() and case["loss"] not in ("Square", "Normal"):
        return
    ref2 = lossgen.ref_cost(case, y, yhat2)
    _well_conditioned(case, y, yhat2, traj2, ref2)
    arg = np.array(list(free) + [x0e[names.index(s_)] for s_ in ts_names])
    got2 = call(key + "/costIV", case, obj.costIV, arg)
    rec.label("costIV:" + ("target_state" if ts else "all-states"))
    if not np.isfinite(got2) or abs(float(got2) - ref2) > 1e-5 * (1 + abs(ref2)):
        raise PropertyViolation(key + "/costIV", "costIV([theta, x0']) = %.12g, reference = %.12g (x0' = %s)" % (got2, ref2, x0e), case)
    if case.get("iv_twice"):
        # a scan over the parameters at fixed initial values: the second answer belongs to the second parameter vector
        free3 = [S.sig(v * 1.25, 5) for v in free]
        th3 = lossgen.full_theta(case, free3)
        traj3 = lossgen.reference_traj(m, th3, x0e, su["t0"], times)
        yhat3 = traj3[:, cols]
        if not ((yhat3 <= 1e-9).any() and case["loss"] not in ("Square", "Normal")):
            ref3 = lossgen.ref_cost(case, y, yhat3)
            _well_conditioned(case, y, yhat3, traj3, ref3)
            arg3 = np.array(list(free3) + [x0e[names.index(s_)] for s_ in ts_names])
            got3 = call(key + "/costIV-second", case, obj.costIV, arg3)
            rec.label("costIV:asked-twice-same-initial-values")
            if not np.isfinite(got3) or abs(float(got3) - ref3) > 1e-5 * (1 + abs(ref3)):
                raise PropertyViolation(key + "/costIV-second", "second costIV (other parameters, same initial values) = %.12g, reference = %.12g" % (
                    got3, ref3), case)
    obj._setX0(np.array(su["x0"], float))       # costIV moves the loss object's initial state; restore it


def oracle(case, rec):
    m, su = case["model"], case["setup"]
    names = ir.state_names(m)
    y, _ref_star = lossgen.make_data(case)
    n, p = y.shape
    key = "C06/" + case["loss"]
    rec.label("loss:" + case["loss"], "obs:%d" % p, "obs_form:" + case["obs_form"],
              "spread:" + ("none" if case["spread"] is None else "scalar" if not isinstance(case["spread"], list) else
                           "matrix" if isinstance(case["spread"][0], list) else "per-state"),
              "weights:" + ("none" if case["weights"] is None else "scalar" if not isinstance(case["weights"], list) else
                            "matrix" if isinstance(case["weights"][0], list) else "per-state"),
              "target_param:" + ("subset" if case["target_param"] else "all"))
    shared = {} if case.get("twin") else None
    if p >= 2 and n == p:
        rec.label("data:square-matrix" + ("+matrix-weights-or-spread" if (isinstance(case["weights"], list) and isinstance(case["weights"][0], list))
                                          or (isinstance(case["spread"], list) and isinstance(case["spread"][0], list)) else ""))
    model, obj = call(key + "/construct", case, lossgen.build, case, y, None, shared)
    twin = None
    if shared is not None:
        _m, twin = call(key + "/construct-twin", case, lossgen.build, case, y, model, shared)
    times = lossgen.times_of(case)
    cols = lossgen.obs_cols(case)
    free = lossgen.free_theta(case)
    th = lossgen.full_theta(case, free)
    traj = lossgen.reference_traj(m, th, su["x0"], su["t0"], times)
    yhat = traj[:, cols]
    if (yhat <= 1e-9).any():
        raise Inconclusive("prediction not positive")
    ref = lossgen.ref_cost(case, y, yhat)
    _well_conditioned(case, y, yhat, traj, ref)
    if case.get("default_theta_after_foreign_write"):
        stored = lossgen.construction_theta(case)
        th_s = lossgen.full_theta(case, stored)
        traj_s = lossgen.reference_traj(m, th_s, su["x0"], su["t0"], times)
        yhat_s = traj_s[:, cols]
        if (yhat_s > 1e-9).all() or case["loss"] in ("Square", "Normal"):
            ref_s = lossgen.ref_cost(case, y, yhat_s)
            _well_conditioned(case, y, yhat_s, traj_s, ref_s)
            # only the parameters this loss object is responsible for (its target parameters) are overwritten: the others
            # live in the shared model by design and would legitimately change the cost
            tset = set(case["target_param"] or m["params"])
            model.parameters = [v * (f if q in tset else 1.0) for q, v, f in zip(m["params"], su["theta"], case["foreign_factors"])]
            got_s = call(key + "/cost-default-theta", case, obj.cost)
            rec.label("cost():default-theta-after-foreign-parameter-write")
            if not np.isfinite(got_s) or abs(float(got_s) - ref_s) > 1e-5 * (1 + abs(ref_s)):
                raise PropertyViolation(key + "/cost-default-theta", "cost() with theta at its default = %.12g, reference loss at the "
                                        "parameters the loss object holds (%s) = %.12g" % (got_s, stored, ref_s), case)
    rec.label("order:" + ("costIV-first" if case.get("iv_first") else "cost-first"))
    if case.get("companion"):
        comp = call(key + "/companion-construct", case, lossgen.companion, case, model)
        rec.label("companion-loss-object-on-same-model")
        lossgen.interleave(obj, ["cost", "residual", "costIV"], lambda: call(key + "/companion-work", case, lossgen.companion_work, comp))
    if case.get("iv_first"):
        _check_costIV(case, rec, obj, key, m, su, names, y, th, free, times, cols)
    got = call(key + "/cost", case, obj.cost, np.array(free))
    if not np.isfinite(got) or abs(float(got) - ref) > 1e-5 * (1 + abs(ref)):
        raise PropertyViolation(key + "/cost", "cost(theta) = %.12g, reference loss of the reference trajectory = %.12g" % (got, ref), case)
    # residual: y - yhat (times weights for Square/Normal)
    W = lossgen.broadcast(case["weights"], n, p, 1.0)
    res = np.asarray(call(key + "/residual", case, obj.residual, np.array(free)), float)
    want = (y - yhat) * W
    if res.size != want.size:
        raise PropertyViolation(key + "/residual-shape", "residual has shape %s for %d x %d observations" % (res.shape, n, p), case)
    if np.abs(res.reshape(n, p) - want).max() > 1e-5 * (1 + np.abs(want).max() + np.abs(y).max()):
        raise PropertyViolation(key + "/residual", "residual(theta) differs from weights*(y - reference trajectory) by %.3g" % (
            np.abs(res.reshape(n, p) - want).max()), case)
    if not case.get("iv_first"):
        _check_costIV(case, rec, obj, key, m, su, names, y, th, free, times, cols)
    # zero at the generating parameters
    if case["loss"] == "Square" and case["noise"] == 0:
        star = [su["theta"][m["params"].index(q)] for q in (case["target_param"] or m["params"])]
        z = call(key + "/cost-at-truth", case, obj.cost, np.array(star))
        bound = 1e-10 * n * p * (1 + np.abs(y).max()) ** 2 * max(1.0, float(np.max(W)) ** 2)
        if not (0 <= z <= bound):
            raise PropertyViolation(key + "/zero-at-truth", "square loss at the data-generating parameters is %.3g (bound %.3g)" % (z, bound), case)
        rec.label("zero-at-truth-checked")
    if twin is not None:
        rec.label("twin-built-from-the-same-input-objects")
        got_t = call(key + "/twin-cost", case, twin.cost, np.array(free))
        if not np.isfinite(got_t) or abs(float(got_t) - ref) > 1e-5 * (1 + abs(ref)):
            raise PropertyViolation(key + "/twin-cost", "a second loss object built from the same x0 / time / data objects gives "
                                    "cost(theta) = %.12g after the first one was used, reference %.12g" % (got_t, ref), case)
    decl_order = [names.index(s) for s in case["obs"]]
    interesting = (p >= 2 and decl_order != sorted(decl_order)) or case["target_param"] is not None or \
        isinstance(case["spread"], list) or isinstance(case["weights"], list)
    moving = (np.abs(yhat.max(axis=0) - yhat.min(axis=0)) > 1e-3 * (1 + np.abs(yhat).max())).all()
    if interesting and moving:
        rec.mark_nontrivial(case, lossgen.describe(case))


SELFTESTS = [jets.selftest, refsolve.selftest, refdist.selftest]
