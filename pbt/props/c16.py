"""C16 - seeded serial simulations are reproducible."""
import numpy as np
from hypothesis import strategies as st

from pbt import ir, render, strategies as S, stoch
from pbt.harness import PropertyViolation, Inconclusive
from pbt.util import pretty, call

ID = "C16"
TITLE = "Seeded serial simulations are reproducible"
RULE = ("Part A (stochastic): bounded-rate event models as in C04, two different NumPy seeds, 1-4 iterations, exact or tau-leap, "
        "scalar horizon or grid. Part B (random parameters): benign ODE models whose every parameter influences the solution, with "
        "1..all parameters random, given as frozen scipy distributions or (sampler, args) with args tuple or dict (rgamma, rnorm, "
        "runif, rexp, a user-written wrapper around rbeta), mixed with fixed numbers; entry point solve_determ or simulate_param with full_output=True. Oracle: same "
        "np.random.seed => bit-identical states, counts, times / mean and individual runs; mean == average of the returned runs "
        "(rtol 1e-12); different seeds => outputs differ, asserted only where a coincidence has probability < 1e-9 by construction "
        "(exact mode with >=1 event; tau mode with >=25 steps having non-zero counts; continuous parameter draws). "
        "Non-trivial = path with >=10 steps (A) or >=2 iterations (B); distinct by case hash.")
ASSUMPTIONS = [
    "seeding is done through np.random.seed (the global legacy generator), as the tests and documentation do",
    "parallel=True paths are outside the statement (serial only)",
]
BUDGET = {"quick": (4, 70), "thorough": (16, 900)}
TECHNIQUE = "property-based testing (Hypothesis @given): replay determinism under equal seeds, sensitivity to the seed, and a mean-of-runs metamorphic relation"
LEVEL_TEXT = ("Exploration over models, seeds, iteration counts and input forms; the oracle is replay equality (bit-identical arrays), "
              "which needs no reference model, plus the mean relation recomputed from the returned runs.")
LEVEL_NOTE = "Difference under different seeds is only asserted where coincidence is negligible by construction."
DESIGN_REF = "DESIGN.md section 3 (C16)"


def strategy(tier):
    @st.composite
    def case(draw):
        part = draw(st.sampled_from(["A", "A", "B"]))
        s1 = draw(st.integers(0, 2 ** 32 - 1))
        s2 = draw(st.integers(0, 2 ** 32 - 1).filter(lambda v: v != s1))
        if part == "A" and draw(st.integers(0, 5)) == 0:
            # a very large population in tau-leap mode: a single leap expects billions of events per transition
            k1, k2 = draw(S.fl(0.2, 1.5, 3)), draw(S.fl(0.2, 1.5, 3))
            m = {"state_decl": [{"name": "A", "lims": None}, {"name": "B", "lims": None}], "state_style": "list",
                 "params": ["k1", "k2"], "param_style": "list", "derived": [], "odes": [],
                 "events": [{"rate": ir.mul(ir.P("k1"), ir.S("A")), "rate_kind": "linear",
                             "trans": [{"kind": "T", "o": "A", "d": "B", "mag": {"int": 1}}]},
                            {"rate": ir.mul(ir.P("k2"), ir.S("B")), "rate_kind": "linear",
                             "trans": [{"kind": "D", "o": "B", "d": None, "mag": {"int": 1}}]}]}
            su = {"x0": [draw(st.sampled_from([10 ** 11, 10 ** 12, 10 ** 13])), 0], "theta": [k1, k2], "t0": 0.0,
                  "horizon": S.sig(draw(S.fl(0.2, 0.6, 2)) / k1, 3), "np_seed": 0}
            return {"part": "A", "model": m, "setup": su, "seeds": [s1, s2], "iters": draw(st.integers(1, 2)),
                    "exact": False, "grid_n": draw(st.sampled_from([0, 0, 5])), "large": True}
        if part == "A":
            m = draw(S.event_model())
            su = draw(S.stochastic_setup(m))
            rnd_mag = None
            if draw(st.integers(0, 3)) == 0:
                # a jump size carried by a parameter that is itself random (batch sizes ~ a discrete distribution): redrawn for
                # every run from the seeded global stream, like any other random parameter
                pm = draw(S.parametrise_magnitudes(m, su))
                if pm is not None:
                    m, su, _alt = pm
                    rnd_mag = {"hi": draw(st.integers(3, 6)), "form": draw(st.sampled_from(["frozen", "tuple"]))}
            return {"part": "A", "model": m, "setup": su, "seeds": [s1, s2], "iters": draw(st.integers(1, 4)), "random_magnitude": rnd_mag,
                    # a fixed leap size for the tau-leap runs, as a whole number (Python int) or a fraction
                    "pre_tau": draw(st.sampled_from([None, None, None, 1, 2, 0.5])),
                    "exact": draw(st.booleans()), "grid_n": draw(st.sampled_from([0, 0, 5])),
                    # the simulated object is a copy.deepcopy of the configured model (what the package's own
                    # profile-likelihood code does with models)
                    # (not together with random parameters: a deep copy of a frozen scipy distribution owns a private copy of
                    # the generator - that is scipy's and deepcopy's doing, on any tree)
                    "deepcopy": draw(st.integers(0, 3)) == 0 and rnd_mag is None}
        m = draw(S.ode_model(allow_time=False, families=("chain", "epidemic")))
        su = draw(S.ode_setup(m, n_times=(2, 8), t_max=4.0))
        spec = []
        n_random = len(m["params"]) if draw(st.booleans()) else draw(st.integers(1, len(m["params"])))
        for i, p in enumerate(m["params"]):
            if i < n_random:
                form = draw(st.sampled_from(["frozen", "tuple", "dict"]))
                fam = draw(st.sampled_from(["gamma", "norm", "unif", "exp", "beta"]))
                spec.append({"form": form, "family": fam, "a": draw(S.fl(0.3, 1.2, 3)), "b": draw(S.fl(0.05, 0.3, 3))})
            else:
                spec.append({"form": "fixed", "value": su["theta"][i]})
        order = draw(st.permutations(list(range(len(spec)))))
        return {"part": "B", "model": m, "setup": su, "seeds": [s1, s2], "iters": draw(st.integers(1, 4)),
                "spec": spec, "dict_order": list(order), "entry": draw(st.sampled_from(["solve_determ", "simulate_param"])),
                "stepwise": draw(st.sampled_from([0, 1, 2, 3])), "declare_once": draw(st.sampled_from([False, True, True]))}
    return case()


def _param_dict(m, spec, order):
    import scipy.stats as ss
    from pygom.utilR import rgamma, rnorm, runif, rexp, rbeta

    def rbeta1(n, shape1, shape2):
        # a user's own sampler around the package's beta generator (which hands back a length-1 array for n=1)
        return float(np.ravel(rbeta(n, shape1, shape2))[0])
    items = []
    for p, sp in zip(m["params"], spec):
        if sp["form"] == "fixed":
            items.append((p, sp["value"]))
            continue
        a, b = sp["a"], sp["b"]
        fam = sp["family"]
        if sp["form"] == "frozen":
            v = {"gamma": ss.gamma(a=4.0, scale=a / 4.0), "norm": ss.norm(loc=a + 0.5, scale=b * 0.3),
                 "unif": ss.uniform(loc=a, scale=b), "exp": ss.expon(scale=a), "beta": ss.beta(3.0, 3.0 / a)}[fam]
        else:
            fn = {"gamma": rgamma, "norm": rnorm, "unif": runif, "exp": rexp, "beta": rbeta1}[fam]
            if sp["form"] == "tuple":
                args = {"gamma": (4.0, 4.0 / a), "norm": (a + 0.5, b * 0.3), "unif": (a, a + b), "exp": (1.0 / a,),
                        "beta": (3.0, 3.0 / a)}[fam]
            else:
                args = {"gamma": {"shape": 4.0, "rate": 4.0 / a}, "norm": {"mean": a + 0.5, "sd": b * 0.3},
                        "unif": {"min": a, "max": a + b}, "exp": {"rate": 1.0 / a}, "beta": {"shape1": 3.0, "shape2": 3.0 / a}}[fam]
            v = (fn, args)
        items.append((p, v))
    return dict(items[i] for i in order)


def _randint1(n, lo, hi):
    """A user's (sampler, args) sampler of whole numbers lo..hi-1 from the global NumPy stream."""
    v = np.random.randint(lo, hi, size=n)
    return float(v[0]) if n == 1 else v.astype(float)


def _same(a, b):
    a, b = np.asarray(a), np.asarray(b)
    return a.shape == b.shape and np.array_equal(a, b)


def oracle(case, rec):
    m, su = case["model"], case["setup"]
    s1, s2 = case["seeds"]
    rec.label("part:" + case["part"])
    if case.get("large"):
        rec.label("population:1e11-1e13")
    if case["part"] == "A":
        exact = case["exact"]
        model, order = stoch.prepare(m, su)
        rm = case.get("random_magnitude")
        if rm:
            import scipy.stats as ss
            rec.label("parameters:random-jump-size")
            pd = {p: v for p, v in zip(m["params"], su["theta"])}
            for p in m["params"]:
                if p.startswith("kmag"):
                    pd[p] = ss.randint(1, rm["hi"]) if rm["form"] == "frozen" else (_randint1, (1, rm["hi"]))
            model.parameters = pd
        if case.get("deepcopy"):
            import copy
            model = call("C16/deepcopy", case, copy.deepcopy, model)
            rec.label("model:deep-copy")
        key = "C16/" + ("exact" if exact else "tau")
        if not exact and case.get("pre_tau") is not None:
            model.pre_tau = case["pre_tau"] if su.get("clock", 1.0) == 1.0 else case["pre_tau"] / su["clock"]
            rec.label("pre_tau:" + type(case["pre_tau"]).__name__)
        t_end = su["t0"] + su["horizon"]
        targ = np.linspace(su["t0"], t_end, case["grid_n"]) if case["grid_n"] else t_end
        rec.label("mode:" + ("exact" if exact else "tau"), "t:" + ("grid" if case["grid_n"] else "scalar"))
        box = stoch.limit_steps(model, 100000 if exact else 8000)

        def run(seed):
            np.random.seed(seed)
            return stoch.simulate("C16", key, case, model.solve_stochast, targ, case["iters"], exact=exact,
                                  full_output=True, parallel=False)
        try:
            r1, r1b, r2 = run(s1), run(s1), run(s2)
        except stoch.StepBudget:
            rec.label("step-budget:%s pre_tau=%r clock=%r rndmag=%s large=%s" % ("exact" if exact else "tau", case.get("pre_tau"), su.get("clock"),
                                                                             bool(case.get("random_magnitude")), bool(case.get("large"))))
            raise Inconclusive("step budget")
        for name, a, b in zip(("states", "counts", "times"), r1, r1b):
            if case["grid_n"] and name == "times":
                ok = _same(a, b)
            else:
                ok = len(a) == len(b) and all(_same(x, y) for x, y in zip(a, b))
            if not ok:
                raise PropertyViolation(key + "/same-seed", "two runs after np.random.seed(%d) differ in %s" % (s1, name), case)
        counts1 = [np.asarray(c, float) for c in r1[1]]
        steps = max((c.shape[0] if c.ndim == 2 else 0) for c in counts1)
        if case["grid_n"] == 0:
            c0 = counts1[0]
            nonzero_steps = int((c0.sum(axis=1) > 0).sum()) if c0.ndim == 2 else 0
            sure = (exact and nonzero_steps >= 1) or ((not exact) and nonzero_steps >= 25)
            if sure:
                rec.label("different-seed-asserted")
                if all(_same(x, y) for x, y in zip(r1[0], r2[0])) and all(_same(x, y) for x, y in zip(r1[2], r2[2])):
                    raise PropertyViolation(key + "/different-seed", "seeds %d and %d gave identical paths" % (s1, s2), case)
        if steps >= 10:
            rec.mark_nontrivial(case, {"model": pretty(m), "setup": su, "exact": exact, "iters": case["iters"]})
        return
    # ---- part B: deterministic runs with random parameters
    model, order = render.build(m)
    key = "C16/" + case["entry"]
    forms = {sp["form"] for sp in case["spec"]}
    if case.get("stepwise") and len(case["spec"]) >= 2:
        rec.label("parameters:declared-in-two-partial-dicts")
    rec.label("entry:" + case["entry"], *["form:" + f for f in forms])
    grid = [su["t0"] + v for v in su["grid_rel"]]
    n = case["iters"]

    def declare():
        full = _param_dict(m, case["spec"], case["dict_order"])
        if case.get("stepwise") and len(full) >= 2:
            # parameters declared one group at a time (partial dicts), as in an interactive session
            items = list(full.items())
            cut = 1 + case["stepwise"] % (len(items) - 1)
            model.parameters = dict(items[:cut])
            model.parameters = dict(items[cut:])
        else:
            model.parameters = full

    once = bool(case.get("declare_once"))
    if once:
        # the random parameters are declared once; every later run only re-seeds the global generator
        rec.label("parameters:declared-once-before-all-runs")
        declare()

    def run(seed):
        np.random.seed(seed)
        if not once:
            declare()
        model.initial_values = (su["x0"], su["t0"])
        return call(key, case, getattr(model, case["entry"]), grid, n, full_output=True)
    out1, out1b, out2 = run(s1), run(s1), run(s2)
    try:
        Y1, all1 = out1
        Y1b, all1b = out1b
        Y2, all2 = out2
    except Exception:
        raise PropertyViolation(key + "/return", "full_output=True did not return (mean, runs)", case)
    if len(all1) != n:
        raise PropertyViolation(key + "/iterations", "asked for %d runs, got %d" % (n, len(all1)), case)
    if not _same(Y1, Y1b) or not all(_same(a, b) for a, b in zip(all1, all1b)):
        raise PropertyViolation(key + "/same-seed", "two runs after np.random.seed(%d) differ" % s1, case)
    Y1 = np.asarray(Y1, float)
    if not np.isfinite(Y1).all():
        raise Inconclusive("integration not finite")
    if Y1.shape != (len(grid) + 1, len(ir.state_names(m))):
        raise PropertyViolation(key + "/shape", "mean trajectory has shape %s" % (Y1.shape,), case)
    mean = np.mean(np.stack([np.asarray(a, float) for a in all1]), axis=0)
    if not np.allclose(Y1, mean, rtol=1e-12, atol=1e-12):
        raise PropertyViolation(key + "/mean", "reported mean differs from the mean of the returned runs by %.3g" % np.abs(Y1 - mean).max(), case)
    # "different draws => different output" is only a consequence of the property where the solution really depends on a
    # random parameter (a model started at an equilibrium, e.g. R=I with R->I and I->R at the same rate, does not):
    # decided from the reference sensitivities of the abstract model at the centre of the sampling distributions.
    sensitive = _depends_on_random_params(m, su, case["spec"], grid)
    if sensitive:
        rec.label("different-seed-asserted")
        if _same(Y1, Y2):
            raise PropertyViolation(key + "/different-seed", "seeds %d and %d gave identical mean trajectories" % (s1, s2), case)
    else:
        rec.label("different-seed-skipped:solution-insensitive-to-random-parameters")
    if n >= 2:
        d = np.abs(np.asarray(all1[0], float) - np.asarray(all1[1], float)).max()
        if d == 0 and sensitive:
            raise PropertyViolation(key + "/runs-identical", "individual runs with random parameters are identical to each other", case)
        if sensitive:
            rec.mark_nontrivial(case, {"model": pretty(m), "spec": case["spec"], "entry": case["entry"], "iters": n})


def _depends_on_random_params(m, su, spec, grid):
    from pbt import refsolve
    centre = {"gamma": lambda a, b: a, "norm": lambda a, b: a + 0.5, "unif": lambda a, b: a + 0.5 * b, "exp": lambda a, b: a,
              "beta": lambda a, b: a / (1.0 + a)}
    theta = [sp["value"] if sp["form"] == "fixed" else centre[sp["family"]](sp["a"], sp["b"]) for sp in spec]
    rnd = [i for i, sp in enumerate(spec) if sp["form"] != "fixed"]
    try:
        _X, Sens = refsolve.reference_sensitivities(m, theta, su["x0"], su["t0"], grid, rtol=1e-9, atol=1e-11)
    except Inconclusive:
        return False
    return bool(np.abs(Sens[:, :, rnd]).max() > 1e-3)
