"""C10 - closed compartmental models conserve the total population."""
import numpy as np
from hypothesis import strategies as st

from pbt import ir, render, strategies as S, stoch
from pbt.harness import PropertyViolation, Inconclusive
from pbt.util import pretty, call, arr

ID = "C10"
TITLE = "Closed compartmental models conserve the total population"
RULE = ("Hypothesis builds transition-only models (every process a between-state transition; 2-5 states, 1-5 events of "
        "1-3 transitions; arbitrary rate templates incl. time-periodic; integer, decimal or symbolic magnitudes for the "
        "deterministic part, integer magnitudes and bounded-rate templates for the stochastic part). Oracle: "
        "sum(get_ode_eqn()) expands to 0 (or is < 1e-12 of the term scale at generated points), sum(ode(x,t)) <= 1e-10*sum|terms|, "
        "integrate(t).sum(axis=1) constant within 1e-6*total, and every solve_stochast path (exact, adaptive tau, fixed tau; raw and "
        "gridded exact) keeps X.sum(axis=1) exactly constant. Non-trivial = >=2 transitions and (a magnitude != 1 or a "
        "multi-transition event); stochastic paths with >=5 steps; distinct by case hash.")
ASSUMPTIONS = [
    "deterministic integration is run on models with bounded Lipschitz constants over a short horizon; an odeint failure (non-finite output) is inconclusive",
    "the stochastic part uses integer magnitudes (the property's 'exactly' needs integer state)",
]
BUDGET = {"quick": (4, 110), "thorough": (16, 700)}
TECHNIQUE = "property-based testing (Hypothesis @given over transition-only models) with a conservation invariant checked symbolically, numerically, along integrated solutions and along simulated paths"
LEVEL_TEXT = ("Exploration: conservation is an invariant; it is checked on the symbolic system, on numeric evaluations, on "
              "ODE solutions and on every step of stochastic paths of generated closed models.")
LEVEL_NOTE = "Trusts sympy.expand for the symbolic zero test (with a 30-digit numeric fallback) and scipy odeint tolerance for the 1e-6 bound."
DESIGN_REF = "DESIGN.md section 3 (C10)"


def strategy(tier):
    @st.composite
    def case(draw):
        part = draw(st.sampled_from(["determ", "stoch"]))
        if part == "determ":
            m = draw(S.general_model(max_events=5, min_events=1, allow_odes=False, kinds="T", max_states=5,
                                     min_states=2))
            pts = [draw(S.point(m, x_hi=10.0, th_hi=2.0)) for _ in range(2)]
            return {"part": part, "model": m, "points": pts,
                    "grid": sorted(set(draw(st.lists(S.fl(0.02, 1.0, 3), min_size=2, max_size=6))))}
        # (half of the closed models declare limits - a compartment with a capacity: whatever the engine does at a full
        # compartment, nobody may appear or vanish)
        m = draw(S.event_model(transition_only=True, kinds="T", limits=draw(st.booleans())))
        su = draw(S.stochastic_setup(m))
        algo = draw(st.sampled_from(["exact", "tau", "pre_tau", "exact-grid", "tau-grid", "tau-grid"]))
        return {"part": part, "model": m, "setup": su, "algo": algo,
                "pre_tau": draw(st.sampled_from([0.02, 0.1, 0.5])),
                "ngrid": draw(st.integers(3, 8))}
    return case()


def oracle(case, rec):
    import sympy
    m = case["model"]
    names = ir.state_names(m)
    n_s = len(names)
    n_tr = sum(len(e["trans"]) for e in m["events"])
    interesting = n_tr >= 2 and (any(len(e["trans"]) > 1 for e in m["events"]) or
                                 any(t["mag"].get("int") != 1 for e in m["events"] for t in e["trans"]))
    rec.label("part:" + case["part"])
    if case["part"] == "determ":
        model, order = render.build(m)
        eqn = call("C10/get_ode_eqn", case, model.get_ode_eqn)
        total = sympy.expand(sum(eqn))
        from pbt.props.c01 import _subs_map
        for pt in case["points"]:
            model.parameters = pt["theta"]
            if total != 0:
                v = sympy.N(total.subs(_subs_map(total.free_symbols, m, pt)), 30)
                # size of the terms the DEFINITION adds up (magnitude x rate per transition, both ends): float coefficients
                # such as 2.5e-9 leave eps-sized residues of the large coefficients they were summed with, and the model's own
                # expression has already merged like terms
                fo = ir.FloatOps()
                env_ = ir.make_env(m, pt["x"], pt["t"], pt["theta"], fo, None)
                scale = 1.0
                for ev_ in m["events"]:
                    r_ = abs(float(ir.evaluate(ev_["rate"], env_, fo)))
                    scale += 2 * r_ * sum(abs(float(ir.evaluate(ir.mag_expr(tr_["mag"]), env_, fo))) for tr_ in ev_["trans"])
                if abs(v) > 1e-12 * scale:
                    raise PropertyViolation("C10/symbolic-sum", "sum(get_ode_eqn()) = %s does not vanish (value %s)" % (total, v), case)
            f = arr(call("C10/ode", case, model.ode, pt["x"], pt["t"]), (n_s,), "ode(x,t)", "C10/ode", case)
            ref = ir.reference_float(m, pt["x"], pt["t"], pt["theta"], order)
            scale = float(np.abs(ref["V"]).dot(np.abs(ref["rates"])).sum()) + 1e-300
            if abs(f.sum()) > 1e-10 * scale:
                raise PropertyViolation("C10/numeric-sum", "sum(ode(x,t)) = %.3g with term scale %.3g" % (f.sum(), scale), case)
        pt = case["points"][0]
        model.parameters = pt["theta"]
        model.initial_values = (pt["x"], pt["t"])
        grid = [pt["t"] + g for g in case["grid"]]
        if len(grid) >= 2:
            sol, info = call("C10/integrate", case, model.integrate, grid, full_output=True)
            sol = np.asarray(sol, float)
            if info.get("message") != "Integration successful.":
                raise Inconclusive("odeint reported failure")
            if not np.isfinite(sol).all() or np.abs(sol).max() > 1e8:
                raise Inconclusive("integration blew up")
            tot = sol.sum(axis=1)
            if np.abs(tot - tot[0]).max() > 1e-6 * (abs(tot[0]) + np.abs(sol).max()):
                if sol.min() < -1e-6 * (1 + np.abs(sol).max()):
                    # rates are generated to be benign for non-negative states only; past that the system may explode and the
                    # integrator's own error swamps a linear invariant
                    raise Inconclusive("drift after the solution left the non-negative orthant")
                raise PropertyViolation("C10/integrate-sum", "sum of states drifts along integrate(): %s" % tot, case)
        if interesting:
            rec.mark_nontrivial(case, {"model": pretty(m), "point": case["points"][0]})
        return
    su = case["setup"]
    model, order = stoch.prepare(m, su)
    algo = case["algo"]
    exact = algo.startswith("exact")
    model.pre_tau = case["pre_tau"] / su.get("clock", 1.0) if algo == "pre_tau" else None
    t_end = su["t0"] + su["horizon"]
    rec.label("algo:" + algo)
    box = stoch.limit_steps(model, 400000 if exact else 60000)
    try:
        if algo in ("exact-grid", "tau-grid"):
            grid = np.linspace(su["t0"], t_end, case["ngrid"])
            np.random.seed(su["np_seed"])
            Xs, _c, _t = stoch.simulate("C10", "C10/" + algo, case, model.solve_stochast, grid, 2, exact=(algo == "exact-grid"),
                                        full_output=True)
        else:
            Xs, _c, _t = stoch.simulate("C10", "C10/" + algo, case, stoch.run_raw, model, t_end, 2, exact, su["np_seed"])
    except stoch.StepBudget:
        raise Inconclusive("step budget")
    total0 = float(np.sum(su["x0"]))
    steps = 0
    for X in Xs:
        X = np.asarray(X, float)
        tot = X.sum(axis=1)
        steps = max(steps, len(tot) - 1)
        if algo == "tau-grid":
            # gridded tau-leap rows are interpolated between integer states: the total is kept up to float rounding
            if np.abs(tot - total0).max() > 1e-9 * (1 + abs(total0)):
                k = int(np.argmax(np.abs(tot - total0)))
                raise PropertyViolation("C10/path-sum/tau-grid", "row %d of a gridded tau-leap path sums to %r, initial total %r" % (
                    k, tot[k], total0), case)
            continue
        if not (tot == total0).all():
            k = int(np.argwhere(tot != total0)[0][0])
            raise PropertyViolation("C10/path-sum/" + algo, "row %d of a %s path sums to %r, initial total %r" % (k, algo, tot[k], total0), case)
    if interesting and (steps >= 5 or algo in ("exact-grid", "tau-grid")):
        rec.mark_nontrivial(case, {"model": pretty(m), "setup": su, "algo": algo})
