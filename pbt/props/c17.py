"""C17 - ABC keeps only particles inside the prior support and under the tolerance."""
import math

import numpy as np
from hypothesis import strategies as st

from pbt import ir, lossgen, refsolve, jets, refdist, render, strategies as S
from pbt.harness import PropertyViolation, Inconclusive
from pbt.util import call, pretty

ID = "C17"
TITLE = "ABC keeps only particles inside the prior support and under the tolerance"
RULE = ("Hypothesis builds a small benign ODE model (2-3 states), data from the reference integrator at theta* (optionally perturbed), 1-2 "
        "inferred parameters listed in a generated order plus optionally one inferred initial state, priors from {unif(lo,hi), gamma(shape,rate), "
        "norm(mean,sd)} with generated log-scale flags (uniform priors on the log10 scale), N in [20,45], G in [1,3], a decreasing tolerance list "
        "or (initial tolerance incl. inf, quantile q in [0.3,0.8]), M in {None, M<N}, loss in {SquareLoss, NormalLoss, PoissonLoss} and a history "
        "get | get->continue | get->continue->continue under a generated NumPy seed. Oracle, for every particle of the final generation: each "
        "prior density > 0 at the stored value (own closed-form support test); the stored distance equals the reference cost (independent "
        "integrator + loss formula) at the back-transformed particle mapped to model quantities by parameter NAME (rtol 1e-5) and is below the "
        "last tolerance; weights finite and > 0; under quantile scheduling tolerances never increase within a call or across continue. "
        "Non-trivial = (G >= 2 or a continue step) and some generation with acceptance rate < 100%; distinct by case hash.")
ASSUMPTIONS = [
    "LinAlgError / non-positive-definite kernel covariance at low N is a documented limitation (the code warns): such runs are discarded and counted",
    "prior supports keep the ODE benign (normal priors have sd <= 10% of the mean, so negative rates have probability < 1e-20)",
    "the constraint=(pop_size, state) option is exercised only together with an inferred initial state, with pop_size = sum of the generating initial state",
]
BUDGET = {"quick": (4, 30), "thorough": (16, 250)}
TECHNIQUE = "property-based testing (Hypothesis @given over models, priors, schedules and get/continue histories) with a posterior-sample invariant whose distances are recomputed by an independent integrator"
LEVEL_TEXT = ("Exploration over inputs and short histories of ABC calls; the invariant over the final particle population is checked "
              "against an independently recomputed cost, which exposes parameter-order and bookkeeping slips.")
LEVEL_NOTE = "Runs are small (N <= 45); nothing is claimed about posterior quality."
DESIGN_REF = "DESIGN.md section 3 (C17)"
CASE_TIMEOUT = 240


def strategy(tier):
    @st.composite
    def case(draw):
        c = draw(lossgen.loss_case(kinds=["Square", "Square", "Normal", "Poisson"], weights=False, target_param=None,
                                   max_states=3, n_times=(4, 8), families=("chain", "epidemic"), allow_time=False, catalogue=1))
        if isinstance(c["spread"], list):
            c["spread"] = None               # create_loss only forwards a scalar sigma
        m = c["model"]
        names = ir.state_names(m)
        k = draw(st.integers(1, min(3, len(m["params"]))))
        inferred = list(draw(st.permutations(m["params"])))[:k]
        # inferred initial states may stand anywhere in the user's list (before, between or after the rate parameters):
        # the mapping user order -> loss order is then a general permutation (3-cycles included), not just a swap
        n_st = draw(st.sampled_from([0, 0, 0, 1, 1, 1, 2])) if k + 1 <= 4 else 0
        for nm in list(draw(st.permutations(names)))[:min(n_st, 4 - k)]:
            inferred.insert(draw(st.integers(0, len(inferred))), nm)
        priors = []
        for q in inferred:
            v = c["setup"]["theta"][m["params"].index(q)] if q in m["params"] else c["setup"]["x0"][names.index(q)]
            fam = draw(st.sampled_from(["unif", "unif", "gamma", "norm"]))
            if v <= 0:                       # signed quantities (FitzHugh states): no gamma prior, no log scale
                fam = "norm" if fam == "gamma" else fam
            log = draw(st.booleans()) if (fam == "unif" and v > 0) else False
            if fam == "unif":
                lo, hi = sorted([v * draw(S.fl(0.4, 0.8, 3)), v * draw(S.fl(1.3, 2.5, 3))])
                if hi - lo < 1e-3:
                    lo, hi = lo - 0.1, hi + 0.1
                pars = [S.sig(math.log10(lo), 5), S.sig(math.log10(hi), 5)] if log else [S.sig(lo, 4), S.sig(hi, 4)]
            elif fam == "gamma":
                # concentrated, or broad with real mass next to zero (where the perturbation kernel proposes negative values
                # that the prior has to veto)
                shape = draw(st.sampled_from([20.0, 40.0, 1.5, 3.0]))
                pars = [shape, S.sig(shape / v, 5)]
            else:
                pars = [S.sig(v, 4), S.sig(0.08 * abs(v) + (0.02 if abs(v) < 1e-3 else 0.0), 3)]
            priors.append({"name": q, "dist": fam, "pars": pars, "log": log})
        # optional population constraint (pop_size, state): the named state's initial value is pop_size minus the others
        constraint = None
        inferred_states = [q for q in inferred if q in names]
        free_states = [q for q in names if q not in inferred_states]
        if inferred_states and free_states and draw(st.booleans()):
            constraint = draw(st.sampled_from(free_states))
            # the constrained state starts at pop_size minus the others: the priors of the inferred states must not be able to
            # push it below zero (a negative compartment makes the generated models explode), so they become uniform priors
            # whose upper ends share 90% of the constrained state's value
            x0c = c["setup"]["x0"][names.index(constraint)]
            room = 0.9 * x0c / len(inferred_states)
            for pr in priors:
                if pr["name"] in inferred_states:
                    v = c["setup"]["x0"][names.index(pr["name"])]
                    if x0c <= 0 or v <= 0:
                        constraint = None
                        break
                    lo_ = S.sig(v * 0.6, 4)
                    hi_ = S.sig(v + min(room, 1.2 * v), 4)
                    pr.update(dist="unif", pars=[lo_, max(hi_, S.sig(lo_ + 1e-3, 4))], log=False)
        G = draw(st.integers(1, 3))
        sched = draw(st.sampled_from(["list", "quantile", "quantile-inf"])) if G > 1 else "single"
        steps = draw(st.sampled_from([0, 0, 1, 2]))
        if sched == "list" and steps:
            sched = "quantile"                 # continue needs a tolerance below the previous final one: use the quantile form
        c["plots"] = draw(st.integers(0, 3)) == 0
        c["own_tol"] = draw(st.booleans())
        if tier == "thorough" and not m.get("catalogue") and draw(st.integers(0, 24)) == 0:
            # a needle: plain rejection ABC on one rate with a wide uniform prior and a tolerance only about one prior draw in
            # 700 satisfies, so that single particle slots see long runs of rejections (thousands of trials are affordable
            # in this tier only)
            q0 = inferred[0] if inferred[0] in m["params"] else m["params"][0]
            v0 = c["setup"]["theta"][m["params"].index(q0)]
            c.update(loss="Square", noise=0.0, spread=None)
            return dict(c, priors=[{"name": q0, "dist": "unif", "pars": [S.sig(0.4 * v0, 4), S.sig(2.5 * v0, 4)], "log": False}],
                        constraint=None, N=20, G=1, sched="single", q=0.5, tol_factor=1.0, M=None, continues=0, plots=False,
                        needle=True, np_seed=draw(st.integers(0, 2 ** 32 - 1)))
        return dict(c, priors=priors, constraint=constraint, N=draw(st.integers(20, 45)), G=G, sched=sched, q=draw(S.fl(0.3, 0.8, 2)),
                    tol_factor=draw(S.fl(0.5, 1.2, 2)), M=draw(st.sampled_from([None, None, "N-1", "half"])),
                    continues=steps, np_seed=draw(st.integers(0, 2 ** 32 - 1)))
    return case()


class _Budget(BaseException):
    pass


def _support(pr, v):
    if pr["dist"] == "unif":
        return pr["pars"][0] <= v <= pr["pars"][1]
    if pr["dist"] == "gamma":
        return v > 0
    return math.isfinite(v)


def _ref_cost_particle(case, y, particle):
    m, su = case["model"], case["setup"]
    names = ir.state_names(m)
    th, x0 = list(su["theta"]), list(su["x0"])
    for pr, v in zip(case["priors"], particle):
        val = 10 ** v if pr["log"] else v
        if pr["name"] in m["params"]:
            th[m["params"].index(pr["name"])] = float(val)
        else:
            x0[names.index(pr["name"])] = float(val)
    if case.get("constraint"):
        # ABC(..., constraint=(pop_size, state)): that state's initial value is whatever keeps the total at pop_size
        ci = names.index(case["constraint"])
        x0[ci] = float(sum(su["x0"])) - sum(v for i, v in enumerate(x0) if i != ci)
    times = lossgen.times_of(case)
    traj = lossgen.reference_traj(m, th, x0, su["t0"], times, max_amp=100.0)
    yhat = traj[:, lossgen.obs_cols(case)]
    if (yhat <= 1e-9).any() and case["loss"] == "Poisson":
        raise Inconclusive("prediction not positive")
    ref = lossgen.ref_cost(case, y, yhat)
    # predictions decayed to ~1e-6 under a log-type loss amplify the integrators' absolute error beyond the comparison tolerance
    dl = lossgen.ref_dloss(case, y, yhat)
    if 1e-8 * (1 + float(np.abs(traj).max())) * float(np.abs(dl).sum()) > 1e-6 * (1 + abs(ref)):
        raise Inconclusive("loss amplifies solver error")
    return ref


def oracle(case, rec):
    from pygom import approximate_bayesian_computation as pgabc
    m, su = case["model"], case["setup"]
    y, _ = lossgen.make_data(case)
    p = y.shape[1]
    model, _order = render.build(m)
    model.parameters = list(su["theta"])
    key = "C17/" + case["sched"]
    rec.label("loss:" + case["loss"], "sched:" + case["sched"], "continues:%d" % case["continues"], "M:%s" % case["M"],
              "n_inferred:%d" % len(case["priors"]),
              "infers-state:%s" % any(pr["name"] not in m["params"] for pr in case["priors"]),
              *["prior:" + pr["dist"] + ("-log" if pr["log"] else "") for pr in case["priors"]])
    params = [pgabc.Parameter(pr["name"], pr["dist"], *pr["pars"], logscale=pr["log"]) for pr in case["priors"]]
    times = lossgen.times_of(case)
    yy = y[:, 0] if p == 1 else y
    sname = case["obs"][0] if case["obs_form"] == "str" else list(case["obs"])
    kw = {}
    if case["loss"] == "Normal":
        kw["sigma"] = case["spread"] if case["spread"] is not None else 1.0
    np.random.seed(case["np_seed"])
    obj = call(key + "/create_loss", case, pgabc.create_loss, case["loss"] + "Loss", params, model, list(su["x0"]), su["t0"],
               times, yy, sname, **kw)
    if case.get("constraint"):
        rec.label("constraint:" + ("first-state" if ir.state_names(m).index(case["constraint"]) == 0 else "other-state"))
        abc = call(key + "/ABC", case, pgabc.ABC, obj, params, (float(sum(su["x0"])), case["constraint"]))
    else:
        abc = call(key + "/ABC", case, pgabc.ABC, obj, params)
    # count-based budget (not wall-clock): a healthy run needs a few cost evaluations per accepted particle
    budget = {"n": 0, "max": (6000 if case.get("needle") else 40) * case["N"] * case["G"] * (1 + case["continues"])}
    inner_cost = obj.cost

    def counted_cost(*a, **k):
        budget["n"] += 1
        if budget["n"] > budget["max"]:
            raise _Budget()
        return inner_cost(*a, **k)
    obj.cost = counted_cost
    # initial tolerance: placed between the cost of the data-generating particle (always acceptable; not zero for count
    # losses or perturbed data) and a quantile of the reference cost over a few prior draws (deterministic in the case),
    # so that the first generation accepts a sizeable fraction and no generation is unsatisfiable
    rs = np.random.RandomState(case["np_seed"] % (2 ** 31))
    costs = []
    for _ in range(10):
        part = []
        for pr in case["priors"]:
            a_, b_ = pr["pars"]
            part.append(rs.uniform(a_, b_) if pr["dist"] == "unif" else rs.gamma(a_, 1.0 / b_) if pr["dist"] == "gamma" else rs.normal(a_, b_))
        try:
            costs.append(_ref_cost_particle(case, y, part))
        except Inconclusive:
            pass
    if len(costs) < 5:
        raise Inconclusive("prior draws not integrable")
    star = []
    for pr in case["priors"]:
        v = su["theta"][m["params"].index(pr["name"])] if pr["name"] in m["params"] else su["x0"][ir.state_names(m).index(pr["name"])]
        star.append(math.log10(v) if pr["log"] else v)
    c_star = min(_ref_cost_particle(case, y, star), min(costs))
    gap = max(float(np.quantile(costs, 0.6)) - c_star, 1e-6 * (1 + abs(c_star)))
    tol0 = c_star + gap * case["tol_factor"]
    if case.get("needle"):
        pr = case["priors"][0]
        width = pr["pars"][1] - pr["pars"][0]
        r_ = 0.0007 * width
        tol0 = max(_ref_cost_particle(case, y, [star[0] + r_]), _ref_cost_particle(case, y, [star[0] - r_]))
        if not (tol0 > 0):
            raise Inconclusive("needle tolerance degenerate")
        rec.label("needle:acceptance-about-1-in-700")
    N, G = case["N"], case["G"]
    M = None if case["M"] is None else (N - 1 if case["M"] == "N-1" else N // 2)
    if case["sched"] == "single":
        args = dict(tol=tol0, G=1)
    elif case["sched"] == "list":
        args = dict(tol=[c_star + (tol0 - c_star) * f for f in (1.0, 0.7, 0.5)[:G]], G=G)
    elif case["sched"] == "quantile":
        args = dict(tol=tol0, G=G, q=case["q"])
    else:
        args = dict(tol=np.inf, G=G, q=case["q"])
    tol_history = []
    acc = []

    def run(fn, **a):
        try:
            return fn(N=N, M=M, **a)
        except _Budget:
            raise Inconclusive("acceptance rate too low for the evaluation budget")
        except np.linalg.LinAlgError:
            raise Inconclusive("LinAlgError in the perturbation kernel (documented low-N limitation)")
        except ValueError as e:
            if "positive" in str(e) or "semidefinite" in str(e) or "symmetric" in str(e) or "singular" in str(e):
                raise Inconclusive("degenerate kernel covariance (documented low-N limitation)")
            raise PropertyViolation(key + "/raises-ValueError", "ABC raised %r" % (e,), case)
        except (Inconclusive, PropertyViolation):
            raise
        except Exception as e:
            raise PropertyViolation(key + "/raises-" + type(e).__name__, "ABC raised %r" % (e,), case)
    run(abc.get_posterior_sample, **args)
    tol_history.append(list(np.asarray(abc.tolerances, float)))
    acc += list(np.asarray(abc.acceptance_rate, float))
    for _ in range(case["continues"]):
        if case["sched"] in ("quantile", "quantile-inf"):
            nxt = dict(tol=float(abc.next_tol), G=G, q=case["q"])
            if case.get("own_tol"):
                # the caller continues with a tolerance of their own choosing (stricter than the suggested next_tol): the
                # first continued generation must use exactly that one
                nxt["tol"] = float(np.quantile(np.asarray(abc.dist, float), 0.6 * case["q"]))
                rec.label("continue:own-tolerance")
        else:
            nxt = dict(tol=c_star + (float(abc.final_tol) - c_star) * 0.8, G=1)
        run(abc.continue_posterior_sample, **nxt)
        tol_history.append(list(np.asarray(abc.tolerances, float)))
        if abs(tol_history[-1][0] - nxt["tol"]) > 1e-12 * (1 + abs(nxt["tol"])):
            raise PropertyViolation(key + "/continue-tolerance", "continue_posterior_sample(tol=%r, ...) used %r for its first generation" % (
                nxt["tol"], tol_history[-1][0]), case)
        acc += list(np.asarray(abc.acceptance_rate, float))
    if case.get("plots"):
        # looking at the posterior (both scalings of the scatter matrix) must not change it
        import matplotlib
        matplotlib.use("Agg")
        import matplotlib.pyplot as plt
        try:
            abc.plot_scatter()
            abc.plot_scatter(logscale=False)
            rec.label("plot_scatter-called-before-reading-the-sample")
        except Exception as e:
            rec.label("plot_scatter-raised:" + type(e).__name__)
        finally:
            plt.close("all")
    res = np.asarray(abc.res, float)
    dist = np.asarray(abc.dist, float)
    w = np.asarray(abc.w, float)
    final_tol = float(abc.final_tol)
    if res.shape != (N, len(params)) or dist.shape != (N,) or w.shape != (N,):
        raise PropertyViolation(key + "/shapes", "res %s dist %s w %s for N=%d" % (res.shape, dist.shape, w.shape, N), case)
    if abs(final_tol - tol_history[-1][-1]) > 0:
        raise PropertyViolation(key + "/final-tol", "final_tol %r is not the last tolerance %r" % (final_tol, tol_history[-1][-1]), case)
    for i in range(N):
        for pr, v in zip(case["priors"], res[i]):
            if not _support(pr, float(v)):
                raise PropertyViolation(key + "/outside-support", "particle %d has %s=%r outside the support of its %s prior %s" % (
                    i, pr["name"], v, pr["dist"], pr["pars"]), case)
        if not (np.isfinite(w[i]) and w[i] > 0):
            raise PropertyViolation(key + "/weight", "particle %d has weight %r" % (i, w[i]), case)
        if not dist[i] < final_tol:
            raise PropertyViolation(key + "/above-tolerance", "particle %d has distance %r, tolerance of its generation %r" % (i, dist[i], final_tol), case)
    for i in sorted(set([0, N // 3, N // 2, N - 1])):
        ref = _ref_cost_particle(case, y, res[i])
        if abs(dist[i] - ref) > 1e-5 * (1 + abs(ref)):
            raise PropertyViolation(key + "/distance-mismatch", "particle %d (%s): stored distance %.10g, cost recomputed at that particle %.10g" % (
                i, dict(zip([pr["name"] for pr in case["priors"]], res[i])), dist[i], ref), case)
    if case["sched"] in ("quantile", "quantile-inf"):
        flat = [t for h in tol_history for t in h]
        for a, b in zip(flat[:-1], flat[1:]):
            if b > a * (1 + 1e-12):
                raise PropertyViolation(key + "/tolerance-increases", "tolerance schedule %s increases" % flat, case)
    if (G >= 2 or case["continues"]) and min(acc) < 100:
        rec.mark_nontrivial(case, {"model": pretty(m), "priors": case["priors"], "N": N, "G": G, "sched": case["sched"],
                                   "continues": case["continues"], "M": case["M"], "loss": case["loss"],
                                   "acceptance_rates": [round(a, 1) for a in acc]})


SELFTESTS = [jets.selftest, refsolve.selftest, refdist.selftest]
