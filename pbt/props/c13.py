"""C13 - sensitivity systems are the variational equations of the model."""
import numpy as np
from hypothesis import strategies as st

from pbt import ir, jets, refsolve, render, strategies as S
from pbt.harness import PropertyViolation, Inconclusive
from pbt.util import arr, cmp, pretty, call, conv_fn

ID = "C13"
TITLE = "Sensitivity systems are the variational equations of the model"
RULE = ("Part 'algebra': general models (1-4 states, 0-4 parameters), a generated point and generated sensitivity blocks S (nS x nP) and "
        "S0 (nS x nS) with distinct entries, arrangement by parameter or by state. Oracle from exact jet derivatives f, J, G, Hxx, Hpx: "
        "ode_and_sensitivity == [f, vec(J S + G)] (column-stacking by parameter, row-major by state, input unpacked the same way), "
        "ode_and_sensitivityIV == [f, vec_F(J S + G), vec_F(J S0)], and the three Jacobians (ode_and_sensitivity_jacobian in both "
        "arrangements, ode_and_sensitivityIV_jacobian, sens_jacobian_state) equal the derivative of those right-hand sides with respect to "
        "z assembled entry by entry with own index loops. Part 'integrated': benign ODE models; PyGOM's augmented right-hand side and "
        "Jacobian integrated by integrateFuncJac; sensitivity columns compared (rtol 1e-5) with reference dx/dtheta, dx/dx0 from own "
        "variational equations (self-tested against a closed form), and with central differences of reference solutions (rtol 1e-3). "
        "Non-trivial = nS != nP, both >= 2; distinct by case hash.")
ASSUMPTIONS = [
    "ode_and_sensitivity with zero parameters is rejected by design (it cannot tell states from sensitivities); zero-parameter models are checked through the initial-value variants",
    "integrated part only on well-conditioned generated models (reference integrators must agree)",
]
BUDGET = {"quick": [("algebra", 110)] * 3 + [("integrated", 25)], "thorough": [("algebra", 900)] * 12 + [("integrated", 150)] * 4}
TECHNIQUE = "property-based testing (Hypothesis @given) with an automatic-differentiation oracle for the augmented right-hand sides and their Jacobians, and reference variational equations for the integrated sensitivities"
LEVEL_TEXT = ("Exploration: vector layouts and block Jacobians of generated models compared entry by entry with independently assembled "
              "references; integrated sensitivities compared with an independent variational solve and finite differences.")
LEVEL_NOTE = "Trusts the jets implementation and scipy solve_ivp at rtol 1e-11 for the references."
DESIGN_REF = "DESIGN.md section 3 (C13), section 4 (F7)"


def strategy(tier, mode=None):
    @st.composite
    def algebra(draw):
        m = draw(S.general_model(max_states=4, max_params=4, min_params=0, max_events=4, min_events=1))
        pt = draw(S.point(m))
        n_s, n_p = len(ir.state_names(m)), len(m["params"])
        # sensitivities of every size: O(1), or uniformly tiny (early in an outbreak seeded with 1e-12, parameters that barely
        # matter yet) - non-zero all the same
        sc = draw(st.sampled_from([1.0, 1.0, 1.0, 1e-6, 1e-9, 1e-11]))
        Sv = [(draw(S.fl(-2.0, 2.0, 3)) + 0.013 * (i + 1)) * sc for i in range(n_s * n_p)]
        S0 = [draw(S.fl(-2.0, 2.0, 3)) + 0.017 * i for i in range(n_s * n_s)]
        return {"part": "algebra", "model": m, "point": pt, "S": Sv, "S0": S0,
                "conv": draw(st.sampled_from(["state-first", "time-first"]))}

    @st.composite
    def integrated(draw):
        m = draw(S.ode_model(max_states=3))
        su = draw(S.ode_setup(m, n_times=(2, 5), t_max=4.0))
        return {"part": "integrated", "model": m, "setup": su,
                "method": draw(st.sampled_from([None, "lsoda", "vode", "dopri5"]))}
    return integrated() if mode == "integrated" else algebra()


def _ref_rhs_jac(d, Smat, n_s, n_p, by_state):
    """d(rhs)/dz for z=[x, vec(S)], entry by entry. Index of S[i,k]: by parameter nS+k*nS+i, by state nS+i*nP+k."""
    def pos(i, k):
        return n_s + (i * n_p + k if by_state else k * n_s + i)
    n = n_s + n_s * n_p
    A = np.zeros((n, n))
    A[:n_s, :n_s] = d["J"]
    for i in range(n_s):
        for k in range(n_p):
            r = pos(i, k)
            for l in range(n_s):
                A[r, l] = sum(d["Hxx"][i, j, l] * Smat[j, k] for j in range(n_s)) + d["Hpx"][i, k, l]
            for j in range(n_s):
                A[r, pos(j, k)] += d["J"][i, j]
    return A


def _algebra(case, rec):
    m, pt = case["model"], case["point"]
    n_s, n_p = len(ir.state_names(m)), len(m["params"])
    model, order = render.build(m)
    if n_p:
        model.parameters = pt["theta"]
    x, t = pt["x"], pt["t"]
    d = ir.derivatives(m, x, t, pt["theta"], order)
    if not all(np.isfinite(v).all() for v in d.values()):
        raise Inconclusive("reference not finite")
    conv = case.get("conv", "state-first")      # f(z, t, ...) or the time-first wrapper f_T(t, z, ...) used by the integrators
    rec.label("convention:" + conv)
    Smat = np.array(case["S"], float).reshape(n_s, n_p)
    S0 = np.array(case["S0"], float).reshape(n_s, n_s)
    rec.label("nS:%d" % n_s, "nP:%d" % n_p)
    if Smat.size and np.abs(Smat).max() < 1e-5:
        rec.label("sensitivities:tiny")
    dS = d["J"].dot(Smat) + d["G"]
    dS0 = d["J"].dot(S0)
    # size of the terms summed into the reference entries (rounding noise of the reference scales with it)
    smax = 1.0 + float(max(np.abs(Smat).max() if Smat.size else 0.0, np.abs(S0).max()))
    t1 = max(d["mag0"], d["mag1"] * smax * max(1, n_s))
    t2 = (d["mag2"] * smax * max(1, n_s) + d["mag1"])
    if n_p:
        for by_state in (False, True):
            tag = "by_state" if by_state else "by_param"
            vecS = Smat.reshape(-1) if by_state else Smat.reshape(-1, order="F")
            z = np.concatenate([x, vecS])
            want = np.concatenate([d["f"], dS.reshape(-1) if by_state else dS.reshape(-1, order="F")])
            got = arr(call("C13/ode_and_sensitivity/" + tag, case, conv_fn(model, "ode_and_sensitivity", conv), z, t, by_state), want.shape,
                      "ode_and_sensitivity", "C13/ode_and_sensitivity/" + tag, case)
            cmp(got, want, "ode_and_sensitivity(%s)" % tag, "C13/ode_and_sensitivity/" + tag, case, 1e-8, terms=t1)
            A = _ref_rhs_jac(d, Smat, n_s, n_p, by_state)
            gotA = arr(call("C13/ode_and_sensitivity_jacobian/" + tag, case, conv_fn(model, "ode_and_sensitivity_jacobian", conv), z, t, by_state),
                       A.shape, "ode_and_sensitivity_jacobian", "C13/ode_and_sensitivity_jacobian/" + tag, case)
            cmp(gotA, A, "ode_and_sensitivity_jacobian(%s)" % tag, "C13/ode_and_sensitivity_jacobian/" + tag, case, 1e-8, 1e-10, terms=t2)
        z = np.concatenate([x, Smat.reshape(-1, order="F")])
        want = np.zeros((n_s * n_p, n_s))
        for i in range(n_s):
            for k in range(n_p):
                for l in range(n_s):
                    want[k * n_s + i, l] = sum(d["Hxx"][i, j, l] * Smat[j, k] for j in range(n_s))
        got = arr(call("C13/sens_jacobian_state", case, conv_fn(model, "sens_jacobian_state", conv), z, t), want.shape, "sens_jacobian_state",
                  "C13/sens_jacobian_state", case)
        cmp(got, want, "sens_jacobian_state", "C13/sens_jacobian_state", case, 1e-8, 1e-10, terms=t2)
    # initial-value variant (also for models without parameters)
    z = np.concatenate([x, Smat.reshape(-1, order="F"), S0.reshape(-1, order="F")])
    want = np.concatenate([d["f"], dS.reshape(-1, order="F"), dS0.reshape(-1, order="F")])
    got = arr(call("C13/ode_and_sensitivityIV", case, conv_fn(model, "ode_and_sensitivityIV", conv), z, t), want.shape, "ode_and_sensitivityIV",
              "C13/ode_and_sensitivityIV", case)
    cmp(got, want, "ode_and_sensitivityIV", "C13/ode_and_sensitivityIV", case, 1e-8, terms=t1)
    n1 = n_s + n_s * n_p
    n = n1 + n_s * n_s
    A = np.zeros((n, n))
    A[:n1, :n1] = _ref_rhs_jac(d, Smat, n_s, n_p, False)
    for i in range(n_s):
        for c in range(n_s):
            r = n1 + c * n_s + i
            for l in range(n_s):
                A[r, l] = sum(d["Hxx"][i, j, l] * S0[j, c] for j in range(n_s))
            for j in range(n_s):
                A[r, n1 + c * n_s + j] += d["J"][i, j]
    gotA = arr(call("C13/ode_and_sensitivityIV_jacobian", case, conv_fn(model, "ode_and_sensitivityIV_jacobian", conv), z, t), A.shape,
               "ode_and_sensitivityIV_jacobian", "C13/ode_and_sensitivityIV_jacobian", case)
    cmp(gotA, A, "ode_and_sensitivityIV_jacobian", "C13/ode_and_sensitivityIV_jacobian", case, 1e-8, 1e-10, terms=t2)
    if n_s != n_p and n_s >= 2 and n_p >= 2:
        rec.mark_nontrivial(case, {"model": pretty(m), "point": pt, "S": case["S"]})


def _integrated(case, rec):
    from pygom.model import ode_utils
    m, su = case["model"], case["setup"]
    n_s, n_p = len(ir.state_names(m)), len(m["params"])
    model, order = render.build(m)
    theta, x0, t0 = su["theta"], su["x0"], su["t0"]
    model.parameters = theta
    times = np.array([t0 + v for v in su["grid_rel"]])
    rec.label("method:%s" % case["method"], "nS:%d" % n_s, "nP:%d" % n_p)
    X, Sref, S0ref = refsolve.reference_sensitivities(m, theta, x0, t0, times, with_iv=True)
    # conditioning / agreement of the reference with finite differences of reference solutions
    f = refsolve.ir_rhs(m, theta)
    _ref, amp = refsolve.reference_solution(f, x0, t0, times, 1e-6)
    if amp > 50:
        raise Inconclusive("ill-conditioned")
    for k in range(n_p):
        h = 1e-5 * max(1.0, abs(theta[k]))
        tp, tm = list(theta), list(theta)
        tp[k] += h
        tm[k] -= h
        fd = (refsolve.solve(refsolve.ir_rhs(m, tp), x0, t0, times) - refsolve.solve(refsolve.ir_rhs(m, tm), x0, t0, times)) / (2 * h)
        if np.abs(fd - Sref[:, :, k]).max() > 1e-3 * (1 + np.abs(fd).max()):
            raise Inconclusive("reference sensitivities disagree with finite differences")
    z0 = np.concatenate([x0, np.zeros(n_s * n_p), np.eye(n_s).reshape(-1)])
    out = call("C13/integrated", case, ode_utils.integrateFuncJac, model.ode_and_sensitivityIV_T,
               model.ode_and_sensitivityIV_jacobian_T, z0, t0, times, method=case["method"])
    out = arr(out, (len(times), n_s + n_s * n_p + n_s * n_s), "integrated augmented system", "C13/integrated", case)
    scale = 1 + np.abs(X).max()
    cmp(out[:, :n_s], X, "state part of the integrated sensitivity system", "C13/integrated/state", case, 1e-5, 1e-6 * scale)
    for kt in range(len(times)):
        Sg = out[kt, n_s:n_s + n_s * n_p].reshape((n_s, n_p), order="F")
        S0g = out[kt, n_s + n_s * n_p:].reshape((n_s, n_s), order="F")
        cmp(Sg, Sref[kt], "dx/dtheta at t=%g" % times[kt], "C13/integrated/dx-dtheta", case, 1e-5, 1e-6 * (1 + np.abs(Sref).max()))
        cmp(S0g, S0ref[kt], "dx/dx0 at t=%g" % times[kt], "C13/integrated/dx-dx0", case, 1e-5, 1e-6 * (1 + np.abs(S0ref).max()))
    z0 = np.concatenate([x0, np.zeros(n_s * n_p)])
    out = call("C13/integrated-by-param", case, ode_utils.integrateFuncJac, model.ode_and_sensitivity_T,
               model.ode_and_sensitivity_jacobian_T, z0, t0, times, method=case["method"])
    out = arr(out, (len(times), n_s + n_s * n_p), "integrated sensitivity system", "C13/integrated", case)
    for kt in range(len(times)):
        Sg = out[kt, n_s:].reshape((n_s, n_p), order="F")
        cmp(Sg, Sref[kt], "dx/dtheta (ode_and_sensitivity) at t=%g" % times[kt], "C13/integrated/dx-dtheta", case, 1e-5,
            1e-6 * (1 + np.abs(Sref).max()))
    if n_s != n_p and n_s >= 2 and n_p >= 2:
        rec.mark_nontrivial(case, {"model": pretty(m), "setup": su, "method": case["method"]})


def oracle(case, rec):
    rec.label("part:" + case["part"])
    if case["part"] == "algebra":
        _algebra(case, rec)
    else:
        _integrated(case, rec)


SELFTESTS = [jets.selftest, refsolve.selftest]
