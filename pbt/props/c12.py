"""C12 - equivalent ways of specifying a model give the same model."""
import copy

import numpy as np
from hypothesis import strategies as st

from pbt import ir, render, strategies as S
from pbt.harness import PropertyViolation, Inconclusive
from pbt.util import arr, cmp, pretty, call

ID = "C12"
TITLE = "Equivalent ways of specifying a model give the same model"
RULE = ("Hypothesis draws a process set (general model grammar of C01) and two or three specifications of it: a baseline (all Event "
        "objects, list declarations, given order) and a variant with a generated route per process (Event, Event whose first member "
        "transition carries the rate, Transition with its own rate in event=, legacy transition=/birth_death= lists, incremental add_event / "
        "add_transition / add_birth_death), births re-declared by origin instead of destination and vice versa, space- or comma-separated "
        "string declarations or ODEVariable objects with a human readable name (transitions then name a state by its ID or by the object), and a generated permutation of the processes (in a quarter of the cases one process occurs twice), with the constructor arguments wrapped as lists, tuples, or (1 case in 4) a lone "
        "birth_death= / ode= entry handed over as the bare Transition object the setters accept; in a quarter of the cases the variant is built from Event / legacy Transition objects that already served to build (and evaluate) another model; plus the whole model entered as explicit ode= strings. "
        "Oracle (metamorphic): get_ode_eqn() of the variants differ by an expression that expands to 0 (30-digit numeric fallback), ode, "
        "jacobian and grad agree at 3 generated points (rtol 1e-10), eventRateVector and vMat agree up to the known permutation of events. "
        "Non-trivial = >=3 processes, >=2 different routes used and a birth present; distinct by (model, routes, permutation) hash.")
ASSUMPTIONS = [
    "legacy list routes are used only for magnitude-1 processes (the legacy API has no magnitude)",
    "range-style names are declared identically in all variants (only list/space/comma style changes)",
]
BUDGET = {"quick": (4, 70), "thorough": (16, 700)}
TECHNIQUE = "metamorphic property-based testing (Hypothesis @given): one abstract process set rendered through different API routes, orders and declaration styles must give identical models"
LEVEL_TEXT = ("Exploration over programs and route histories: the oracle is agreement between differently specified models plus agreement "
              "with C01's independent evaluator for the baseline, so no reference semantics is assumed beyond equality.")
LEVEL_NOTE = "Equality of symbolic systems is decided by sympy.expand with a 30-digit numeric fallback; numeric agreement uses rtol 1e-10."
DESIGN_REF = "DESIGN.md section 3 (C12), section 4 (F11)"


def strategy(tier):
    @st.composite
    def case(draw):
        m = draw(S.general_model(min_events=1, max_events=5))
        # how the constructor arguments are wrapped: list, tuple, or a lone birth_death / ode entry handed over as the bare
        # Transition object (the birth_death_list / ode_list setters accept that in place of a list)
        container = draw(st.sampled_from(["list", "list", "tuple", "bare"]))

        def _bd(mm):
            return [i for i, ev in enumerate(mm["events"]) if "legacy" in render.allowed_routes(ev) and ev["trans"][0]["kind"] in "BD"]
        if container == "bare" and not _bd(m):
            # make sure the class is populated: add one unit birth or death process
            names = ir.state_names(m)
            rate, kind = draw(S.rate_expr(names, m["params"], [d["name"] for d in m["derived"]]))
            st_ = draw(st.sampled_from(names))
            tr = {"kind": "D", "o": st_, "d": None, "mag": {"int": 1}} if draw(st.booleans()) else \
                {"kind": "B", "o": None, "d": st_, "mag": {"int": 1}, "birth_by": draw(st.sampled_from(["origin", "destination"]))}
            m["events"].append({"rate": rate, "rate_kind": kind, "trans": [tr]})
        if draw(st.integers(0, 3)) == 0:
            # two separate processes that happen to read the same (two identical infection pathways): both count
            import copy as _copy
            legacy_ok = [i for i, ev in enumerate(m["events"]) if "legacy" in render.allowed_routes(ev)]
            legacy_t = [i for i in legacy_ok if m["events"][i]["trans"][0]["kind"] == "T"]
            names_ = ir.state_names(m)
            if not legacy_t and len(names_) >= 2 and draw(st.booleans()):
                # make sure the class 'two identical unit transfers' exists
                rate_, kind_ = draw(S.rate_expr(names_, m["params"], [d["name"] for d in m["derived"]]))
                o_, d_ = draw(st.lists(st.sampled_from(names_), min_size=2, max_size=2, unique=True))
                m["events"].append({"rate": rate_, "rate_kind": kind_, "trans": [{"kind": "T", "o": o_, "d": d_, "mag": {"int": 1}}]})
                legacy_t = [len(m["events"]) - 1]
                legacy_ok = legacy_ok + legacy_t
            src_i = draw(st.sampled_from(legacy_t)) if legacy_t and draw(st.booleans()) else \
                draw(st.sampled_from(legacy_ok)) if legacy_ok and draw(st.booleans()) else draw(st.integers(0, len(m["events"]) - 1))
            m["events"].append(_copy.deepcopy(m["events"][src_i]))
            m["duplicate_process"] = [src_i, len(m["events"]) - 1]
        routes = []
        for ev in m["events"]:
            allowed = render.allowed_routes(ev)
            if "legacy" in allowed and draw(st.booleans()):
                allowed = ["legacy", "add_legacy"]          # rare otherwise: make the legacy lists a real class
            routes.append(draw(st.sampled_from(allowed)))
        dup = m.get("duplicate_process")
        if dup and "legacy" in render.allowed_routes(m["events"][dup[0]]) and draw(st.booleans()):
            # both copies through the same route (for example both in the legacy transition= list)
            r_same = draw(st.sampled_from(["legacy", "legacy", "add_legacy", "trans", "event"]))
            routes[dup[0]] = routes[dup[1]] = r_same
        perm = list(draw(st.permutations(list(range(len(m["events"]))))))
        if container == "bare":
            bd = _bd(m)
            keep = draw(st.sampled_from(bd))
            for i in bd:
                if i == keep:
                    routes[i] = "legacy"
                elif routes[i] == "legacy":
                    routes[i] = "add_legacy"
        return {"model": m, "routes": routes, "perm": perm, "container": container,
                "shared_objects": draw(st.integers(0, 3)) == 0,
                "state_style": draw(st.sampled_from(["list", "space", "comma", "tuples", "odevar"])),
                "param_style": draw(st.sampled_from(["list", "space", "comma"])),
                "flip_births": draw(st.booleans()),
                "points": [draw(S.point(m)) for _ in range(3)]}
    return case()


def _variant(case):
    m = copy.deepcopy(case["model"])
    m["state_style"] = case["state_style"]
    m["param_style"] = case["param_style"]
    if case["flip_births"]:
        for ev in m["events"]:
            for t in ev["trans"]:
                if t["kind"] == "B":
                    t["birth_by"] = "origin" if t.get("birth_by") == "destination" else "destination"
    return m


def oracle(case, rec):
    import sympy
    from pbt.props.c01 import _subs_map
    m = case["model"]
    n_s, n_p, n_e = len(ir.state_names(m)), len(m["params"]), len(m["events"])
    base_m = copy.deepcopy(m)
    base_m["state_style"], base_m["param_style"] = "list", "list"
    base_m["bracket_refs"] = False
    if m.get("bracket_refs"):
        rec.label("equations:bracket-spelling-of-range-states")
    var_m = _variant(case)
    builds = {}
    try:
        builds["baseline"] = render.build(base_m)
    except Exception as e:
        raise PropertyViolation("C12/construct-baseline/" + type(e).__name__, "baseline raised %r" % (e,), case)
    try:
        shared = {} if case.get("shared_objects") else None
        if shared is not None:
            # the same Event / legacy Transition objects were first used to build another model, which was also evaluated
            other, _o = render.build(var_m, case["routes"], case["perm"], pool=shared)
            other.parameters = case["points"][0]["theta"]
            other.ode(case["points"][0]["x"], case["points"][0]["t"])
            rec.label("objects-shared-with-an-earlier-model")
        builds["variant"] = render.build(var_m, case["routes"], case["perm"], container=case.get("container", "list"), pool=shared)
    except Exception as e:
        raise PropertyViolation("C12/construct-variant/" + type(e).__name__, "variant (routes %s) raised %r" % (case["routes"], e), case)
    try:
        builds["as_ode"] = render.build(var_m, as_ode=True, container=case.get("container", "list"))
    except Exception as e:
        raise PropertyViolation("C12/construct-ode/" + type(e).__name__, "explicit-ODE variant raised %r" % (e,), case)
    for r in set(case["routes"]):
        rec.label("route:" + r)
    rec.label("style:" + case["state_style"], "pstyle:" + case["param_style"])
    if m.get("duplicate_process"):
        rec.label("process-set:contains-two-identical-processes")
    cont = case.get("container", "list")
    if cont == "bare":
        n_bd = sum(1 for r, ev in zip(case["routes"], m["events"]) if r == "legacy" and ev["trans"][0]["kind"] in "BD")
        rec.label("ctor:bare-birth_death" if n_bd == 1 else "ctor:bare-not-applicable")
    else:
        rec.label("ctor:" + cont)
    base, order0 = builds["baseline"]
    eq0 = call("C12/get_ode_eqn", case, base.get_ode_eqn)
    for name in ("variant", "as_ode"):
        mod, order = builds[name]
        eq = call("C12/get_ode_eqn/" + name, case, mod.get_ode_eqn)
        if eq.shape != eq0.shape:
            raise PropertyViolation("C12/ode-shape/" + name, "ODE has shape %s vs %s" % (eq.shape, eq0.shape), case)
        if [s.ID for s in mod.state_list] != [s.ID for s in base.state_list] or \
                [p.ID for p in mod.param_list] != [p.ID for p in base.param_list]:
            raise PropertyViolation("C12/declarations/" + name, "states %s / params %s differ from baseline %s / %s" % (
                mod.state_list, mod.param_list, base.state_list, base.param_list), case)
        for i in range(n_s):
            d = sympy.expand(eq[i] - eq0[i])
            if d == 0:
                continue
            for pt in case["points"]:
                v = sympy.N(d.subs(_subs_map(d.free_symbols, m, pt)), 30)
                # scale: the terms the definition adds up (rate x magnitude per transition end), not the component itself,
                # whose big terms may cancel and leave only the eps-sized residue of float coefficients
                fo_ = ir.FloatOps()
                env_ = ir.make_env(m, pt["x"], pt["t"], pt["theta"], fo_, None)
                scale = 1 + abs(sympy.N(eq0[i].subs(_subs_map(eq0[i].free_symbols, m, pt)), 30))
                for ev_ in m["events"]:
                    scale += 2 * abs(float(ir.evaluate(ev_["rate"], env_, fo_))) * sum(
                        abs(float(ir.evaluate(ir.mag_expr(tr_["mag"]), env_, fo_))) for tr_ in ev_["trans"])
                if abs(v) > 1e-12 * scale:
                    raise PropertyViolation("C12/symbolic/" + name, "d%s/dt of the %s differs from the baseline by %s" % (
                        ir.state_names(m)[i], name, d), case)
        for pt in case["points"]:
            x, t = pt["x"], pt["t"]
            base.parameters = pt["theta"]
            mod.parameters = pt["theta"]
            for fn, shape in (("ode", (n_s,)), ("jacobian", (n_s, n_s)), ("grad", (n_s, n_p))):
                a = arr(call("C12/" + fn, case, getattr(base, fn), x, t), shape, fn, "C12/" + fn, case)
                b = arr(call("C12/%s/%s" % (fn, name), case, getattr(mod, fn), x, t), shape, fn, "C12/" + fn, case)
                if not np.isfinite(a).all():
                    raise Inconclusive("baseline not finite")
                cmp(b, a, "%s of the %s vs baseline" % (fn, name), "C12/%s/%s" % (fn, name), case, 1e-10)
            if name == "variant":
                a = arr(call("C12/eventRateVector", case, base.eventRateVector, x, t), (n_e,), "rates", "C12/eventRateVector", case)
                b = arr(call("C12/eventRateVector/variant", case, mod.eventRateVector, x, t), (n_e,), "rates", "C12/eventRateVector", case)
                cmp(b, a[order], "eventRateVector of the variant vs permuted baseline", "C12/eventRateVector/variant", case, 1e-10)
                a = arr(call("C12/vMat", case, base.vMat, x, t), (n_s, n_e), "vMat", "C12/vMat", case)
                b = arr(call("C12/vMat/variant", case, mod.vMat, x, t), (n_s, n_e), "vMat", "C12/vMat", case)
                cmp(b, a[:, order], "vMat of the variant vs permuted baseline", "C12/vMat/variant", case, 1e-10)
        # the baseline itself against the independent evaluator (so that 'all variants equally wrong' cannot pass)
        pt = case["points"][0]
        base.parameters = pt["theta"]
        ref = ir.reference_float(m, pt["x"], pt["t"], pt["theta"])
        # (size of the terms summed into the reference: contributions of different events may cancel, see C01)
        tf_ = ir.term_scale(m, pt["x"], pt["t"], pt["theta"])
        cmp(arr(base.ode(pt["x"], pt["t"]), (n_s,), "ode", "C12/ode", case), ref["f"], "baseline ode vs abstract model", "C12/baseline-vs-ir", case, 1e-9,
            terms=25 * tf_)
    has_birth = any(t["kind"] == "B" for e in m["events"] for t in e["trans"])
    if n_e >= 3 and len(set(case["routes"])) >= 2 and has_birth:
        rec.mark_nontrivial({"m": m, "r": case["routes"], "p": case["perm"]},
                            {"model": pretty(m), "routes": case["routes"], "perm": case["perm"],
                             "state_style": case["state_style"], "flip_births": case["flip_births"]})
