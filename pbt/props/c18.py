"""C18 - fit stays inside the box and never returns something worse than its start."""
import numpy as np
from hypothesis import strategies as st

from pbt import ir, lossgen, refsolve, jets, refdist, strategies as S
from pbt.harness import PropertyViolation, Inconclusive
from pbt.util import call

ID = "C18"
TITLE = "fit stays inside the box and never returns something worse than its start"
RULE = ("Loss cases from the C06 generator (in 2 of 4 cases a pygom.common_models entry, else benign generated ODE models; mode "
        "'zero-bound': one side of the box is exactly 0 or 0.0 and the generating value lies beyond it, so the bound must be active; bounds as lists, tuples, float arrays, or whole-number lower bounds as Python ints / an integer typed array; all five loss classes, observed-state selections, optional target_param subset) "
        "with data generated at theta*, a box lb < ub around theta* per free parameter (factors in [0.3,0.95] and [1.05,3]; optionally a bound "
        "placed exactly at or within 10% of the start so that it is active) and a start inside the box. Oracle: xhat = fit(start, lb, ub) satisfies "
        "lb <= xhat <= ub elementwise (no tolerance); reference cost(xhat) <= reference cost(start)*(1+1e-9) and the same with the object's own cost; "
        "mode 'truth' (Square/Normal, noise-free data, start = theta*): |xhat - theta*| <= 1e-4(1+|theta*|). Non-trivial = start != theta* and at least one "
        "bound active at the result or within 10% of the start; distinct by case hash.")
ASSUMPTIONS = [
    "boxes keep parameters within a factor 3 of the generating values so that every cost evaluation inside the box integrates",
    "reference costs come from the independent integrator; a case whose reference trajectory is ill-conditioned is inconclusive",
]
BUDGET = {"quick": (4, 50), "thorough": (16, 400)}
TECHNIQUE = "property-based testing (Hypothesis @given) with validity predicates on the optimiser's output (box membership, monotone improvement judged by an independent cost, fixed point at the truth)"
LEVEL_TEXT = ("Exploration over models, losses, boxes and starts; the specification admits many correct outputs, so the oracle is a "
              "validity predicate rather than one expected answer.")
LEVEL_NOTE = "Improvement is judged with an independently computed cost at 1e-9 relative slack plus the solver tolerance of the cost itself."
DESIGN_REF = "DESIGN.md section 3 (C18)"
CASE_TIMEOUT = 15


def strategy(tier):
    @st.composite
    def case(draw):
        mode = draw(st.sampled_from(["box", "box", "truth", "zero-bound"]))
        kinds = ["Square", "Normal"] if mode in ("truth", "zero-bound") else lossgen.KINDS
        c = draw(lossgen.loss_case(kinds=kinds, weights=(mode != "truth"), target_param="any-order", max_states=3,
                                   n_times=(4, 8), allow_time=False, catalogue=2))
        c["mode"] = mode
        c["polish"] = draw(st.integers(0, 2)) == 0
        c["refit"] = draw(st.integers(0, 2)) == 0
        if mode == "truth":
            c["noise"] = 0.0
        m = c["model"]
        tp = c["target_param"] or m["params"]
        lo, hi, start = [], [], []
        for q in tp:
            v = c["setup"]["theta"][m["params"].index(q)]
            a = S.sig(v * draw(S.fl(0.3, 0.95, 3)), 4)
            b = S.sig(v * draw(S.fl(1.05, 3.0, 3)), 4)
            if mode == "truth":
                s0 = v
            else:
                where = draw(st.sampled_from(["inside", "inside", "at-lower", "at-upper", "near-lower"]))
                if where == "at-lower":
                    s0 = a
                elif where == "at-upper":
                    s0 = b
                elif where == "near-lower":
                    s0 = S.sig(a * 1.05, 4)
                else:
                    s0 = S.sig(a + (b - a) * draw(S.fl(0.05, 0.95, 3)), 4)
            lo.append(a)
            hi.append(b)
            start.append(min(max(s0, a), b))
        if mode == "zero-bound" and m.get("catalogue"):
            c["mode"] = mode = "box"        # catalogue parameters sit in denominators (N, c): no sign changes there
        if mode == "zero-bound":
            # one side of the box is exactly zero (the most common bound there is) and the optimum lies beyond it, so the
            # bound has to be active: data are generated with parameter k on the other side of zero
            k = draw(st.integers(0, len(tp) - 1))
            idx = m["params"].index(tp[k])
            v = abs(c["setup"]["theta"][idx])
            zero = draw(st.sampled_from([0, 0.0]))
            if draw(st.booleans()):          # box [-v/2, 0], generating value +v
                lo[k], hi[k] = S.sig(-0.5 * v, 4), zero
            else:                            # box [0, v/2], generating value -v/3 (mild growth instead of decay)
                theta = list(c["setup"]["theta"])
                theta[idx] = S.sig(-v / 3.0, 4)
                c["setup"] = dict(c["setup"], theta=theta)
                lo[k], hi[k] = zero, S.sig(0.5 * v, 4)
            start[k] = S.sig(lo[k] + (hi[k] - lo[k]) * draw(S.fl(0.2, 0.8, 3)), 4)
            c["noise"] = 0.0
        # container / dtype of the bounds: whole-number lower bounds (typically 0) are often given as Python ints
        c["bound_form"] = draw(st.sampled_from(["list", "list", "array", "int_lb_list", "int_lb_array", "tuple"]))
        if c["bound_form"].startswith("int_lb") and mode != "zero-bound":
            import math
            flo = [int(math.floor(v)) for v in lo]
            # catalogue parameters may sit in denominators (N, c): whole-number lower bounds only where they stay positive
            if not m.get("catalogue") or all(v >= 1 for v in flo):
                lo = flo
            else:
                c["bound_form"] = "list"
        c["lb"], c["ub"], c["start"] = lo, hi, start
        # a one-sided box: only lb (ub left at its default or passed as None) or only ub
        if mode == "box" and not m.get("catalogue") and draw(st.integers(0, 3)) == 0:
            side = draw(st.sampled_from(["lb-only", "lb-ub-None", "ub-only", "ub-lb-None"]))
            k = draw(st.integers(0, len(tp) - 1))
            v = c["setup"]["theta"][m["params"].index(tp[k])]
            # make the given side active: the generating value lies beyond it, the start inside
            if side.startswith("lb"):
                lo[k] = S.sig(1.25 * v, 4)
                start = [max(s0, S.sig(1.02 * l, 4)) for s0, l in zip(start, lo)]
                start[k] = S.sig(1.6 * v, 4)
            else:
                hi[k] = S.sig(0.8 * v, 4)
                start = [min(s0, S.sig(0.98 * h, 4)) for s0, h in zip(start, hi)]
                start[k] = S.sig(0.55 * v, 4)
            c["one_sided"] = side
            c["lb"], c["ub"], c["start"] = lo, hi, start
            c["bound_form"] = "list"
        return c
    return case()


def _ref_cost_at(case, y, free):
    m, su = case["model"], case["setup"]
    times = lossgen.times_of(case)
    traj = lossgen.reference_traj(m, lossgen.full_theta(case, list(free)), su["x0"], su["t0"], times, max_amp=50.0)
    yhat = traj[:, lossgen.obs_cols(case)]
    if (yhat <= 1e-9).any() and case["loss"] not in ("Square", "Normal"):
        raise Inconclusive("prediction not positive")
    return lossgen.ref_cost(case, y, yhat)


def _fit_one_sided(case, key, obj, start, lb_arg, ub_arg, side):
    if True:
        if side == "lb-only":
            xhat = call(key + "/fit", case, obj.fit, start.copy(), lb_arg)
        elif side == "lb-ub-None":
            xhat = call(key + "/fit", case, obj.fit, start.copy(), lb_arg, None)
        elif side == "ub-only":
            xhat = call(key + "/fit", case, obj.fit, start.copy(), ub=ub_arg)
        else:
            xhat = call(key + "/fit", case, obj.fit, start.copy(), None, ub_arg)
    return xhat


def oracle(case, rec):
    m = case["model"]
    y, _ = lossgen.make_data(case)
    key = "C18/" + case["loss"]
    rec.label("mode:" + case["mode"], "loss:" + case["loss"], "free:%d" % len(case["start"]))
    model, obj = call(key + "/construct", case, lossgen.build, case, y)
    lb, ub, start = np.array(case["lb"]), np.array(case["ub"]), np.array(case["start"])
    if case.get("polish") and case["mode"] == "box" and not case.get("one_sided"):
        # the user starts fit where a previous, derivative-free search of this very cost ended (a point close to the
        # minimiser of THIS loss class's cost inside the box): fit must not hand back something worse
        from scipy.optimize import minimize
        import time as _time
        best = {"x": start.astype(float), "f": np.inf, "t0": _time.time(), "n": 0}

        class _Enough(Exception):
            pass

        def _obj(th):
            # bounded effort: at most 80 evaluations / 4 seconds, keeping the best point seen
            if best["n"] >= 80 or _time.time() - best["t0"] > 4.0:
                raise _Enough()
            best["n"] += 1
            v = float(obj.cost(np.asarray(th, float)))
            if np.isfinite(v) and v < best["f"]:
                best["f"], best["x"] = v, np.asarray(th, float).copy()
            return v
        try:
            minimize(_obj, start.astype(float), method="Nelder-Mead", bounds=list(zip(lb.astype(float), ub.astype(float))),
                     options={"maxiter": 200, "xatol": 1e-5, "fatol": 1e-10})
        except _Enough:
            pass
        except Exception as e:
            rec.label("start:polish-failed:" + type(e).__name__)
        start = np.minimum(np.maximum(best["x"], lb), ub)
        rec.label("start:polished-by-a-derivative-free-search-of-the-same-cost")
    c_start_ref = _ref_cost_at(case, y, start)
    c_start_own = float(call(key + "/cost", case, obj.cost, start.copy()))
    bf = case.get("bound_form", "list")
    lb_arg, ub_arg = list(case["lb"]), list(case["ub"])
    if bf == "array":
        lb_arg, ub_arg = np.array(case["lb"], float), np.array(case["ub"], float)
    elif bf == "tuple":
        lb_arg, ub_arg = tuple(case["lb"]), tuple(case["ub"])
    elif bf == "int_lb_array" and all(float(v) == int(v) for v in case["lb"]):
        lb_arg = np.array([int(v) for v in case["lb"]])
    elif bf == "int_lb_list" and all(float(v) == int(v) for v in case["lb"]):
        lb_arg = [int(v) for v in case["lb"]]
    rec.label("bounds:" + bf)
    side = case.get("one_sided")
    if side:
        rec.label("box:" + side)
        try:
            xhat = _fit_one_sided(case, key, obj, start, lb_arg, ub_arg, side)
        except PropertyViolation as v:
            if "IntegrationError" in v.key:
                # on the open side the optimiser may try parameter values (negative rates) where the ODE cannot be integrated:
                # outside the domain the statement is about
                raise Inconclusive("one-sided box: optimiser left the integrable region")
            raise
        if side.startswith("lb"):
            ub = np.full(len(lb), np.inf)
        else:
            lb = np.full(len(ub), -np.inf)
    else:
        try:
            xhat = call(key + "/fit", case, obj.fit, start.copy(), lb_arg, ub_arg)
        except PropertyViolation as v:
            if case["mode"] == "zero-bound" and "IntegrationError" in v.key:
                # the box of this mode reaches into negative rates, where a generated model may blow up within the horizon:
                # outside the domain the models are benign on
                raise Inconclusive("zero-bound box: the ODE is not integrable at negative rates")
            raise
    xhat = np.asarray(xhat, float)
    if xhat.shape != start.shape:
        raise PropertyViolation(key + "/shape", "fit returned shape %s for %d free parameters" % (xhat.shape, len(start)), case)
    if not np.isfinite(xhat).all() or (xhat < lb).any() or (xhat > ub).any():
        raise PropertyViolation(key + "/outside-box", "fit returned %s, outside the box lb=%s ub=%s" % (xhat, lb, ub), case)
    c_hat_ref = _ref_cost_at(case, y, xhat)
    c_hat_own = float(call(key + "/cost", case, obj.cost, xhat.copy()))
    slack = 1e-9 * (abs(c_start_ref) + 1) + 1e-6 * (1 + abs(c_start_ref)) * 1e-2
    if c_hat_ref > c_start_ref + slack:
        raise PropertyViolation(key + "/worse-than-start", "reference cost at the result %.12g exceeds the cost of the start %.12g" % (c_hat_ref, c_start_ref), case)
    if c_hat_own > c_start_own * (1 + 1e-9) + 1e-12 + 1e-9 * abs(c_start_own):
        raise PropertyViolation(key + "/worse-than-start-own", "cost(fit) = %.12g exceeds cost(start) = %.12g" % (c_hat_own, c_start_own), case)
    if case["mode"] == "truth":
        if (np.abs(xhat - start) > 1e-4 * (1 + np.abs(start))).any():
            raise PropertyViolation(key + "/truth-not-fixed", "started at the generating parameters %s with noise-free data, fit moved to %s" % (start, xhat), case)
    if case.get("refit") and not side and case["mode"] == "box":
        # the user tightens the box (upper ends pulled half-way towards the start) and fits again from the same start on the
        # same object: the answer must respect the NEW box
        ub2 = np.where(np.isfinite(ub), start + 0.5 * (ub - start), ub)
        try:
            xhat2 = np.asarray(call(key + "/fit-again", case, obj.fit, start.copy(), list(lb), list(ub2)), float)
        except PropertyViolation as v:
            raise
        rec.label("second-fit:same-start-tighter-box")
        if not np.isfinite(xhat2).all() or (xhat2 < lb - 1e-12).any() or (xhat2 > ub2 + 1e-12).any():
            raise PropertyViolation(key + "/second-fit-outside-box", "second fit returned %s, outside the tightened box lb=%s ub=%s" % (xhat2, lb, ub2), case)
        c2 = _ref_cost_at(case, y, xhat2)
        if c2 > c_start_ref + slack:
            raise PropertyViolation(key + "/second-fit-worse-than-start", "second fit: reference cost %.12g exceeds the cost of the start %.12g" % (c2, c_start_ref), case)
    active = ((xhat - lb) < 1e-9).any() or ((ub - xhat) < 1e-9).any()
    near = (np.abs(start - lb) <= 0.1 * np.abs(start)).any() or (np.abs(ub - start) <= 0.1 * np.abs(start)).any()
    if active:
        rec.label("bound-active-at-result")
    moved = np.abs(xhat - start).max() > 1e-6
    if moved:
        rec.label("moved")
    truth = np.array([case["setup"]["theta"][m["params"].index(q)] for q in (case["target_param"] or m["params"])])
    if np.abs(start - truth).max() > 0 and (active or near):
        rec.mark_nontrivial(case, dict(lossgen.describe(case), lb=case["lb"], ub=case["ub"], start=case["start"]))


SELFTESTS = [jets.selftest, refsolve.selftest, refdist.selftest]
