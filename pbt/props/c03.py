"""C03 - Jacobian, gradient and higher derivative functions are the true derivatives."""
import numpy as np
from hypothesis import strategies as st

from pbt import ir, jets, render, strategies as S
from pbt.harness import PropertyViolation, Inconclusive
from pbt.util import arr, cmp, pretty, call, conv_fn

ID = "C03"
TITLE = "Jacobian, gradient and higher derivative functions are the true derivatives"
RULE = ("Models and points as in C01 (general grammar, lambdify back-end). Oracle: exact first and second partial "
        "derivatives of the abstract model's right-hand side from second-order forward-mode jets (own code, "
        "self-tested against complex-step and central differences), laid out as jacobian[i,j], grad[i,k], "
        "diff_jacobian[i*nS+j,k]=d2f_i/dx_j dx_k, grad_jacobian[k*nS+i,j]=d2f_i/dtheta_k dx_j; tau-leap statistics "
        "F=da/dx*V, mu=F*a, sigma2=(F*F)*a from reference rates and V. Non-trivial = (nS != nP or nS >= 3) and a rate "
        "nonlinear in a state and a parameter multiplying a state; distinct by model hash.")
ASSUMPTIONS = [
    "points are away from singularities by construction (positive denominators)",
    "one-row/one-column outputs are compared after a size check and reshape",
    "transition statistics are compared only for models with at least one event",
]
BUDGET = {"quick": (4, 110), "thorough": (16, 900)}
TECHNIQUE = "property-based testing (Hypothesis @given) with a forward-mode automatic-differentiation oracle (jets) over the abstract model"
LEVEL_TEXT = ("Exploration: every derivative evaluator of generated models compared entry by entry with exact derivatives "
              "from an independent AD implementation; layouts are asserted as documented. Right level: transposition, "
              "ordering and index slips are input-independent and show on any model with nS != nP.")
LEVEL_NOTE = "Trusts the jets implementation (self-tested at start-up) and float arithmetic; tolerance 1e-8 relative."
DESIGN_REF = "DESIGN.md section 3 (C03)"


def strategy(tier):
    @st.composite
    def case(draw):
        m = draw(S.general_model(max_events=4))
        pts = [draw(S.point(m)) for _ in range(2)]
        return {"model": m, "points": pts, "conv": draw(st.sampled_from(["state-first", "state-first", "time-first"]))}
    return case()


NONLIN = {"mass", "massN", "sat1", "sat2", "expdecay", "expdecay0"}


def oracle(case, rec):
    m = case["model"]
    n_s, n_p, n_e = len(ir.state_names(m)), len(m["params"]), len(m["events"])
    try:
        model, order = render.build(m)
    except Exception as e:
        raise PropertyViolation("C03/construct/" + type(e).__name__, "constructing the model raised %r" % (e,), case)
    rec.label("nS:%d" % n_s, "nP:%d" % n_p, "nE:%d" % n_e)
    conv = case.get("conv", "state-first")      # jacobian(x,t) or the time-first wrapper jacobian_T(t,x) handed to integrators
    rec.label("convention:" + conv)
    for pt in case["points"]:
        d = ir.derivatives(m, pt["x"], pt["t"], pt["theta"], order)
        if not all(np.isfinite(v).all() for v in d.values()):
            raise Inconclusive("reference not finite")
        model.parameters = pt["theta"]
        x, t = pt["x"], pt["t"]
        J = arr(call("C03/jacobian", case, conv_fn(model, "jacobian", conv), x, t), (n_s, n_s), "jacobian(x,t)", "C03/jacobian", case)
        cmp(J, d["J"], "jacobian(x,t)", "C03/jacobian", case, 1e-8)
        G = arr(call("C03/grad", case, conv_fn(model, "grad", conv), x, t), (n_s, n_p), "grad(x,t)", "C03/grad", case)
        cmp(G, d["G"], "grad(x,t)", "C03/grad", case, 1e-8)
        DJ = arr(call("C03/diff_jacobian", case, conv_fn(model, "diff_jacobian", conv), x, t), (n_s * n_s, n_s), "diff_jacobian(x,t)",
                 "C03/diff_jacobian", case)
        cmp(DJ, d["Hxx"].reshape(n_s * n_s, n_s), "diff_jacobian(x,t)", "C03/diff_jacobian", case, 1e-8)
        GJ = arr(call("C03/grad_jacobian", case, model.grad_jacobian, x, t), (n_s * n_p, n_s), "grad_jacobian(x,t)",
                 "C03/grad_jacobian", case)
        ref_gj = np.transpose(d["Hpx"], (1, 0, 2)).reshape(n_s * n_p, n_s)     # [k, i, j] -> row k*nS+i
        cmp(GJ, ref_gj, "grad_jacobian(x,t)", "C03/grad_jacobian", case, 1e-8)
        if n_e:
            F_ref = d["dadx"].dot(d["V"])                                       # F[i,j] = sum_k da_i/dx_k V[k,j]
            mu_ref = F_ref.dot(d["a"])
            var_ref = (F_ref ** 2).dot(d["a"])
            F = arr(call("C03/transitionJacobian", case, model.transitionJacobian, x, t), (n_e, n_e),
                    "transitionJacobian(x,t)", "C03/transitionJacobian", case)
            cmp(F, F_ref, "transitionJacobian(x,t)", "C03/transitionJacobian", case, 1e-8)
            mu = arr(call("C03/transitionMean", case, model.transitionMean, x, t), (n_e,), "transitionMean(x,t)",
                     "C03/transitionMean", case)
            cmp(mu, mu_ref, "transitionMean(x,t)", "C03/transitionMean", case, 1e-8, 1e-10)
            var = arr(call("C03/transitionVar", case, model.transitionVar, x, t), (n_e,), "transitionVar(x,t)",
                      "C03/transitionVar", case)
            cmp(var, var_ref, "transitionVar(x,t)", "C03/transitionVar", case, 1e-8, 1e-10)
    kinds = {e.get("rate_kind") for e in m["events"]}
    par_times_state = bool(np.abs(d["Hpx"]).sum() > 0)
    if (n_s != n_p or n_s >= 3) and (kinds & NONLIN or np.abs(d["Hxx"]).sum() > 0) and par_times_state:
        rec.mark_nontrivial(m, {"model": pretty(m), "point": case["points"][0]})


SELFTESTS = [jets.selftest]
