"""C03 - Jacobian, gradient and higher derivative functions are the true derivatives."""
import numpy as np
from hypothesis import strategies as st

from pbt import ir, jets, render, strategies as S
from pbt.harness import PropertyViolation, Inconclusive
from pbt.util import arr, cmp, pretty, call, conv_fn

ID = "C03"
TITLE = "Jacobian, gradient and higher derivative functions are the true derivatives"
RULE = ("Models and points as in C01 (general grammar, lambdify back-end; 1 model in 10 has 9-12 states). Oracle: exact first and second partial "
        "derivatives of the abstract model's right-hand side from second-order forward-mode jets (own code, "
        "self-tested against complex-step and central differences), laid out as jacobian[i,j], grad[i,k], "
        "diff_jacobian[i*nS+j,k]=d2f_i/dx_j dx_k, grad_jacobian[k*nS+i,j]=d2f_i/dtheta_k dx_j; tau-leap statistics "
        "F=da/dx*V, mu=F*a, sigma2=(F*F)*a from reference rates and V. Three points are evaluated on the one model object and after "
        "each point the returned arrays are used in place by the caller (scaled and shifted, as in acc += ... / J *= h), so a result "
        "that aliases cached internal storage shows at the next point. Non-trivial = (nS != nP or nS >= 3) and a rate "
        "nonlinear in a state and a parameter multiplying a state; distinct by model hash.")
ASSUMPTIONS = [
    "points are away from singularities by construction (positive denominators)",
    "jacobian, grad, diff_jacobian and grad_jacobian must come back in their matrix layout (also with one state or one parameter); the tau-leap statistics, which the code returns flat for a single event, are compared after a size check and reshape",
    "transition statistics are compared only for models with at least one event",
]
BUDGET = {"quick": (4, 110), "thorough": (16, 900)}
TECHNIQUE = "property-based testing (Hypothesis @given) with a forward-mode automatic-differentiation oracle (jets) over the abstract model"
LEVEL_TEXT = ("Exploration: every derivative evaluator of generated models compared entry by entry with exact derivatives "
              "from an independent AD implementation; layouts are asserted as documented. Right level: transposition, "
              "ordering and index slips are input-independent and show on any model with nS != nP.")
LEVEL_NOTE = "Trusts the jets implementation (self-tested at start-up) and float arithmetic; tolerance 1e-8 relative."
DESIGN_REF = "DESIGN.md section 3 (C03)"


def strategy(tier):
    @st.composite
    def case(draw):
        if draw(st.integers(0, 9)) == 0:
            # a larger model (9-12 states: two host groups plus vectors): index bookkeeping beyond single-digit sizes
            m = draw(S.general_model(min_states=9, max_states=12, max_params=3, max_events=5, min_events=2, allow_range=False,
                                     state_pool=S.STATE_POOL, allow_derived=False))
        else:
            m = draw(S.general_model(max_events=4))
        pts = [draw(S.point(m)) for _ in range(2)]
        return {"model": m, "points": pts, "conv": draw(st.sampled_from(["state-first", "state-first", "time-first"]))}
    return case()


NONLIN = {"mass", "massN", "sat1", "sat2", "expdecay", "expdecay0"}


def _use_in_place(raw):
    """What a caller may do with an array it was handed (acc = f(x0,t); acc += f(x1,t); J *= h): the array is the caller's,
    so the next evaluation must still return the derivatives."""
    if isinstance(raw, np.ndarray) and raw.flags.writeable and raw.dtype.kind == "f":
        raw *= -3.0
        raw += 7.0


def oracle(case, rec):
    m = case["model"]
    n_s, n_p, n_e = len(ir.state_names(m)), len(m["params"]), len(m["events"])
    try:
        model, order = render.build(m)
    except Exception as e:
        raise PropertyViolation("C03/construct/" + type(e).__name__, "constructing the model raised %r" % (e,), case)
    rec.label("nS:%d" % n_s, "nP:%d" % n_p, "nE:%d" % n_e)
    conv = case.get("conv", "state-first")      # jacobian(x,t) or the time-first wrapper jacobian_T(t,x) handed to integrators
    rec.label("convention:" + conv)
    for pt in case["points"]:
        d = ir.derivatives(m, pt["x"], pt["t"], pt["theta"], order)
        if not all(np.isfinite(v).all() for v in d.values()):
            raise Inconclusive("reference not finite")
        model.parameters = pt["theta"]
        x, t = pt["x"], pt["t"]
        used = []

        def ev(key, fn, shape, what, ref, *tol, terms=0.0, matrix=False):
            """Evaluate, compare with the reference; afterwards the caller uses the returned array in place."""
            raw = call(key, case, fn, x, t)
            if matrix and np.shape(raw) != tuple(shape):
                # rows and columns are part of the statement: a 1 x nP gradient handed back as a flat vector has lost them
                raise PropertyViolation(key + "/shape", "%s has shape %s, expected the matrix layout %s" % (what, np.shape(raw), shape), case)
            cmp(arr(raw, shape, what, key, case), ref, what, key, case, *tol, terms=terms)
            used.append(raw)

        ev("C03/jacobian", conv_fn(model, "jacobian", conv), (n_s, n_s), "jacobian(x,t)", d["J"], 1e-8, terms=d["JM"], matrix=True)
        ev("C03/grad", conv_fn(model, "grad", conv), (n_s, n_p), "grad(x,t)", d["G"], 1e-8, terms=d["GM"], matrix=n_p > 0)
        ev("C03/diff_jacobian", conv_fn(model, "diff_jacobian", conv), (n_s * n_s, n_s), "diff_jacobian(x,t)",
           d["Hxx"].reshape(n_s * n_s, n_s), 1e-8, terms=d["HxxM"].reshape(n_s * n_s, n_s), matrix=True)
        ref_gj = np.transpose(d["Hpx"], (1, 0, 2)).reshape(n_s * n_p, n_s)     # [k, i, j] -> row k*nS+i
        ev("C03/grad_jacobian", model.grad_jacobian, (n_s * n_p, n_s), "grad_jacobian(x,t)", ref_gj, 1e-8,
           terms=np.transpose(d["HpxM"], (1, 0, 2)).reshape(n_s * n_p, n_s), matrix=n_p > 0)
        if n_e:
            F_ref = d["dadx"].dot(d["V"])                                       # F[i,j] = sum_k da_i/dx_k V[k,j]
            mu_ref = F_ref.dot(d["a"])
            var_ref = (F_ref ** 2).dot(d["a"])
            tF = float(np.abs(d["dadx"]).dot(np.abs(d["V"])).max()) if F_ref.size else 0.0
            ev("C03/transitionJacobian", model.transitionJacobian, (n_e, n_e), "transitionJacobian(x,t)", F_ref, 1e-8, terms=tF)
            ev("C03/transitionMean", model.transitionMean, (n_e,), "transitionMean(x,t)", mu_ref, 1e-8, 1e-10, terms=tF * float(np.abs(d["a"]).sum()))
            ev("C03/transitionVar", model.transitionVar, (n_e,), "transitionVar(x,t)", var_ref, 1e-8, 1e-10, terms=tF * tF * float(np.abs(d["a"]).sum()))
        if case.get("in_place", True):
            for raw in used:
                _use_in_place(raw)
            if pt is case["points"][0]:
                # ... and asks again at the very same point (a memo of the last evaluation must not hand the edited array back)
                used.clear()
                ev("C03/jacobian/same-point-again", conv_fn(model, "jacobian", conv), (n_s, n_s), "jacobian(x,t) asked again",
                   d["J"], 1e-8, terms=d["JM"], matrix=True)
                ev("C03/grad/same-point-again", conv_fn(model, "grad", conv), (n_s, n_p), "grad(x,t) asked again", d["G"], 1e-8,
                   terms=d["GM"], matrix=n_p > 0)
                ev("C03/diff_jacobian/same-point-again", conv_fn(model, "diff_jacobian", conv), (n_s * n_s, n_s), "diff_jacobian(x,t) asked again",
                   d["Hxx"].reshape(n_s * n_s, n_s), 1e-8, terms=d["HxxM"].reshape(n_s * n_s, n_s), matrix=True)
    kinds = {e.get("rate_kind") for e in m["events"]}
    par_times_state = bool(np.abs(d["Hpx"]).sum() > 0)
    if (n_s != n_p or n_s >= 3) and (kinds & NONLIN or np.abs(d["Hxx"]).sum() > 0) and par_times_state:
        rec.mark_nontrivial(m, {"model": pretty(m), "point": case["points"][0]})


SELFTESTS = [jets.selftest]
