"""C01 - a model definition is assembled into exactly the equations it describes."""
import numpy as np
from hypothesis import strategies as st

from pbt import ir, jets, render, strategies as S
from pbt.harness import PropertyViolation, Inconclusive

ID = "C01"
TITLE = "A model definition is assembled into exactly the equations it describes"
RULE = ("Hypothesis builds an abstract model (1-5 states incl. range-style declarations, 1-5 parameters, "
        "0-5 events of 1-3 T/B/D transitions with integer, decimal, parameter or derived-parameter magnitudes, "
        "rates from the constant/linear/mass-action/saturating/exponential/time-periodic templates, 0-2 explicit "
        "ODE terms, 0-2 derived parameters), a construction route per event (Event, Transition in event=, legacy "
        "lists, incremental add_*), declaration styles and 3 evaluation points (all states of ordinary size, or all of order 1e-5 / 1e5); for half of the models with derived parameters or ODE terms a sibling model - same names, rates and magnitudes, other definitions of the derived parameters and ODE terms - is assembled and evaluated first in the same process. Oracle: rate vector, state-change "
        "matrix, pure-ODE vector and right-hand side computed from the abstract model by an independent float "
        "evaluator, compared with (a) the numeric evaluators, (b) the symbolic reports substituted at 30 digits, "
        "(c) the identity ODE - (V*rates + pure) == 0. Non-trivial = >=2 events, or a multi-transition event, or a "
        "symbolic magnitude, or a derived parameter, or ODE terms together with events; distinct by model hash. "
        "One shard repeats (a) on the default Cython back-end.")
ASSUMPTIONS = [
    "rates are generated positive and away from singularities (x in [0.1,20], theta in [0.05,5])",
    "legacy transition=/birth_death= routes are only used with magnitude 1 (add_transition does not carry a magnitude)",
    "one-row/one-column outputs are compared after a size check and reshape (shape collapse is C04's subject)",
    "models without events are checked through ode/pureOdeVector and the symbolic reports only (an empty matrix has no numeric evaluator)",
]
BUDGET = {"quick": [(None, 250)] * 3 + [("cython", 2)],
          "thorough": [(None, 700)] * 14 + [("cython", 12)] * 2}
TECHNIQUE = "property-based testing (Hypothesis @given over an abstract model grammar) against an independent evaluator of the same abstract model; metamorphic identity ODE = V*rates + pure"
LEVEL_TEXT = ("Exploration: generated model definitions through every construction route, compared entry by entry "
              "with an evaluator that shares no code with sympy/PyGOM, numerically and symbolically. Right level: "
              "the property quantifies over programs (model definitions); sign/index/order slips show on the first "
              "model of the right shape, which the generator constructs on purpose.")
LEVEL_NOTE = "Trusts IEEE arithmetic of the float evaluator and sympy's evalf for substituting numbers into the reported expressions; tolerances 1e-9 relative."
DESIGN_REF = "DESIGN.md section 3 (C01)"


def strategy(tier, mode=None):
    @st.composite
    def case(draw):
        if mode == "cython":
            # names that really compile: the pool without `I` (which clashes with <complex.h>)
            m = draw(S.general_model(max_states=3, max_params=3, max_events=3, min_events=1,
                                     allow_range=False, state_pool=S.STATE_POOL, lower_case_params=False))
        else:
            m = draw(S.general_model())
        routes = [draw(st.sampled_from(render.allowed_routes(ev))) for ev in m["events"]]
        perm = draw(st.permutations(list(range(len(m["events"])))))
        pts = [draw(S.point(m)) for _ in range(3 if mode != "cython" else 2)]
        return {"model": m, "routes": routes, "perm": list(perm), "points": pts,
                "backend": "cython" if mode == "cython" else "lambda",
                "sibling": bool(m["derived"] or m["odes"]) and draw(st.booleans())}
    return case()


def _arr(v, shape, what, key, case):
    a = np.asarray(v, float)
    n = int(np.prod(shape))
    if a.size != n:
        raise PropertyViolation(key + "/size", "%s has %d entries, expected shape %s" % (what, a.size, shape), case)
    return a.reshape(shape)


def _cmp(got, ref, what, key, case, rtol=1e-9, terms=0.0):
    """terms: size of the terms summed into one reference entry (its own rounding noise is about 1e-16 of that)."""
    scale = np.maximum(np.abs(ref), np.abs(got))
    bad = np.abs(got - ref) > rtol * scale + 1e-12 * (1 + (float(np.abs(ref).max()) if np.size(ref) else 0.0)) + 1e-13 * terms
    if bad.any() or not np.isfinite(got).all():
        i = np.argwhere(bad | ~np.isfinite(got))[0]
        raise PropertyViolation(key, "%s differs at %s: model %.15g, reference %.15g" % (
            what, tuple(int(k) for k in i), got[tuple(i)], ref[tuple(i)]), case)


def _subs_map(expr_free, m, pt):
    import sympy
    vals = dict(zip(ir.state_names(m), pt["x"]))
    vals.update(dict(zip(m["params"], pt["theta"])))
    vals["t"] = pt["t"]
    out = {}
    for sym in expr_free:
        if str(sym) not in vals:
            raise KeyError(str(sym))
        out[sym] = sympy.Float(vals[str(sym)], 30)
    return out


def _sym_eval(M, m, pt, what, key, case):
    import sympy
    rows, cols = M.shape
    out = np.zeros((rows, cols))
    for i in range(rows):
        for j in range(cols):
            e = sympy.sympify(M[i, j])
            try:
                v = sympy.N(e.subs(_subs_map(e.free_symbols, m, pt)), 30)
                out[i, j] = float(v)
            except KeyError as k:
                raise PropertyViolation(key + "/unknown-symbol", "%s[%d,%d] = %s contains symbol %s that is neither a "
                                        "state, a parameter nor t (derived parameter not substituted?)" % (what, i, j, e, k), case)
            except TypeError:
                raise PropertyViolation(key + "/not-numeric", "%s[%d,%d] = %s does not evaluate to a number" % (what, i, j, e), case)
    return out


def oracle(case, rec):
    import sympy
    m = case["model"]
    names = ir.state_names(m)
    n_s, n_e = len(names), len(m["events"])
    if case.get("sibling") and case.get("backend", "lambda") == "lambda":
        # another model is alive in the same process: identical names, rates and magnitudes, but other definitions of the
        # derived parameters and ODE terms; it is assembled and evaluated first.  Nothing of it may show in our model.
        import copy
        sib = copy.deepcopy(m)
        for d_ in sib["derived"]:
            d_["expr"] = ir.mul(ir.C(2), d_["expr"])
        for o_ in sib["odes"]:
            o_["expr"] = ir.mul(ir.C(3), o_["expr"])
        try:
            sm, _so = render.build(sib, case["routes"], case["perm"])
            sm.parameters = None if not m["params"] else case["points"][0]["theta"]
            sm.get_ode_eqn()
            sm.ode(case["points"][0]["x"], case["points"][0]["t"])
            if n_e:
                sm.vMat(case["points"][0]["x"], case["points"][0]["t"])
                sm.eventRateVector(case["points"][0]["x"], case["points"][0]["t"])
            rec.label("sibling-model-evaluated-first")
        except Exception as e:
            raise PropertyViolation("C01/sibling/" + type(e).__name__, "constructing / evaluating the sibling model raised %r" % (e,), case)
    try:
        model, order = render.build(m, case["routes"], case["perm"], backend=case.get("backend", "lambda"))
    except Exception as e:
        raise PropertyViolation("C01/construct/" + type(e).__name__,
                                "constructing the model raised %r (routes %s)" % (e, case["routes"]), case)
    feats = S.model_features(m)
    rec.label(*["feat:" + f for f in feats if not f.startswith("rate:")])
    rec.label("events:%d" % n_e, "states:%d" % n_s, "backend:" + case.get("backend", "lambda"))
    for r in set(case["routes"]):
        rec.label("route:" + r)
    # ---- symbolic reports
    try:
        ode_sym = model.get_ode_eqn()
        V_sym = model.get_StateChangeMatrix()
        a_sym = model.get_EventRateVector()
        pure_sym = model.get_pureOdeVector()
        react = model.get_ReactantMatrix()
    except Exception as e:
        raise PropertyViolation("C01/symbolic/" + type(e).__name__, "symbolic report raised %r" % (e,), case)
    if tuple(ode_sym.shape) != (n_s, 1) or tuple(V_sym.shape) != (n_s, n_e) or tuple(a_sym.shape) != (n_e, 1) \
            or tuple(pure_sym.shape) != (n_s, 1):
        raise PropertyViolation("C01/symbolic/shape", "shapes ode %s V %s rates %s pure %s for nS=%d nE=%d" % (
            ode_sym.shape, V_sym.shape, a_sym.shape, pure_sym.shape, n_s, n_e), case)
    model.parameters = None if not m["params"] else case["points"][0]["theta"]
    cython_count = 0
    for pt in case["points"]:
        ref = ir.reference_float(m, pt["x"], pt["t"], pt["theta"], order)
        if not np.isfinite(ref["f"]).all():
            raise Inconclusive("reference not finite")
        model.parameters = pt["theta"]
        # (a) numeric evaluators
        try:
            got_f = _arr(model.ode(pt["x"], pt["t"]), (n_s,), "ode(x,t)", "C01/ode", case)
            got_p = _arr(model.pureOdeVector(pt["x"], pt["t"]), (n_s,), "pureOdeVector(x,t)", "C01/pureOdeVector", case)
            if n_e:
                got_V = _arr(model.vMat(pt["x"], pt["t"]), (n_s, n_e), "vMat(x,t)", "C01/vMat", case)
                got_a = _arr(model.eventRateVector(pt["x"], pt["t"]), (n_e,), "eventRateVector(x,t)", "C01/eventRateVector", case)
        except PropertyViolation:
            raise
        except Exception as e:
            raise PropertyViolation("C01/evaluate/" + type(e).__name__, "numeric evaluation raised %r" % (e,), case)
        tf = ir.term_scale(m, pt["x"], pt["t"], pt["theta"])
        _cmp(got_f, ref["f"], "ode(x,t)", "C01/ode", case, terms=tf)
        _cmp(got_p, ref["pure"], "pureOdeVector(x,t)", "C01/pureOdeVector", case, terms=tf)
        if n_e:
            _cmp(got_V, ref["V"], "vMat(x,t)", "C01/vMat", case)
            _cmp(got_a, ref["rates"], "eventRateVector(x,t)", "C01/eventRateVector", case)
            _cmp(got_V.dot(got_a) + got_p, got_f, "vMat*rates+pure vs ode (numeric identity)", "C01/identity-numeric", case, rtol=1e-8, terms=tf)
        # (b) symbolic reports substituted at 30 digits
        _cmp(_sym_eval(ode_sym, m, pt, "get_ode_eqn()", "C01/get_ode_eqn", case).reshape(n_s), ref["f"],
             "get_ode_eqn()", "C01/get_ode_eqn", case, terms=tf)
        _cmp(_sym_eval(pure_sym, m, pt, "get_pureOdeVector()", "C01/get_pureOdeVector", case).reshape(n_s), ref["pure"],
             "get_pureOdeVector()", "C01/get_pureOdeVector", case, terms=tf)
        if n_e:
            _cmp(_sym_eval(V_sym, m, pt, "get_StateChangeMatrix()", "C01/get_StateChangeMatrix", case), ref["V"],
                 "get_StateChangeMatrix()", "C01/get_StateChangeMatrix", case)
            _cmp(_sym_eval(a_sym, m, pt, "get_EventRateVector()", "C01/get_EventRateVector", case).reshape(n_e), ref["rates"],
                 "get_EventRateVector()", "C01/get_EventRateVector", case)
    # the caller edits the symbolic reports it was handed (substitutes a state by 0 to look at a sub-system, say): the next
    # report must again be the model's, not the edited object
    if case.get("backend", "lambda") == "lambda":
        pt = case["points"][-1]
        try:
            first = model.get_ode_eqn()
            for i_ in range(n_s):
                first[i_, 0] = first[i_, 0] * 0 + 17
            if n_e:
                v_first = model.get_StateChangeMatrix()
                v_first[0, 0] = 99
                a_first = model.get_EventRateVector()
                a_first[0, 0] = 0
            again = model.get_ode_eqn()
        except Exception as e:
            raise PropertyViolation("C01/symbolic-again/" + type(e).__name__, "second symbolic report raised %r" % (e,), case)
        ref = ir.reference_float(m, pt["x"], pt["t"], pt["theta"], order)
        tf = ir.term_scale(m, pt["x"], pt["t"], pt["theta"])
        _cmp(_sym_eval(again, m, pt, "get_ode_eqn()", "C01/get_ode_eqn-after-edit", case).reshape(n_s), ref["f"],
             "get_ode_eqn() after the caller edited the previous report in place", "C01/get_ode_eqn-after-edit", case, terms=tf)
        if n_e:
            _cmp(_sym_eval(model.get_StateChangeMatrix(), m, pt, "get_StateChangeMatrix()", "C01/get_StateChangeMatrix-after-edit", case),
                 ref["V"], "get_StateChangeMatrix() after an in-place edit of the previous report", "C01/get_StateChangeMatrix-after-edit", case)
            _cmp(_sym_eval(model.get_EventRateVector(), m, pt, "get_EventRateVector()", "C01/get_EventRateVector-after-edit", case).reshape(n_e),
                 ref["rates"], "get_EventRateVector() after an in-place edit of the previous report", "C01/get_EventRateVector-after-edit", case)
            got_f2 = _arr(model.ode(pt["x"], pt["t"]), (n_s,), "ode(x,t)", "C01/ode-after-edit", case)
            _cmp(got_f2, ref["f"], "ode(x,t) after the symbolic reports were edited in place", "C01/ode-after-edit", case, terms=tf)
    # reactant matrix: which states an event touches
    if n_e:
        if np.asarray(react).shape != (n_s, n_e) or (np.asarray(react) != ref["reactant"]).any():
            raise PropertyViolation("C01/get_ReactantMatrix", "reactant matrix %s, expected %s" % (
                np.asarray(react).tolist(), ref["reactant"].tolist()), case)
    # (c) identity, symbolically or at 30 digits
    resid = ode_sym - (V_sym * a_sym + pure_sym) if n_e else ode_sym - pure_sym
    for i in range(n_s):
        e = sympy.expand(resid[i])
        if e == 0:
            continue
        for pt in case["points"]:
            v = sympy.N(e.subs(_subs_map(e.free_symbols, m, pt)), 30)
            scale = 1 + abs(float(sympy.N(ode_sym[i].subs(_subs_map(ode_sym[i].free_symbols, m, pt)), 30)))
            if abs(v) > 1e-12 * scale:   # decimal literals are 15-digit Floats inside sympy
                raise PropertyViolation("C01/identity-symbolic", "get_ode_eqn()[%d] - (V*rates+pure)[%d] = %s != 0 "
                                        "(value %s)" % (i, i, e, v), case)
    if case.get("backend") == "cython":
        for nm in ("ode", "vMat", "eventRateVector", "pureOdeVector"):
            fn = getattr(model, nm + "Compiled", None)
            # the compiled closure wraps the autowrap product: recover it for the evidence
            try:
                inner = fn.__closure__[0].cell_contents.__closure__[0].cell_contents
                if "cython" in type(inner).__name__.lower():
                    cython_count += 1
            except Exception:
                pass
        rec.extra["cython_compiled_functions"] = rec.extra.get("cython_compiled_functions", 0) + cython_count
    if feats & {"multi-event", "multi-transition-event", "symbolic-magnitude", "derived-param", "ode-term+events"}:
        rec.mark_nontrivial(m, {"model": _pretty(m), "routes": case["routes"], "point": case["points"][0]})


def _pretty(m):
    return {"states": render.state_argument(m), "params": render.param_argument(m),
            "derived": [(d["name"], ir.to_str(d["expr"])) for d in m.get("derived", [])],
            "events": [{"rate": ir.to_str(e["rate"]),
                        "transitions": ["%s %s->%s x%s" % (t["kind"], t["o"], t["d"], ir.mag_str(t["mag"])) for t in e["trans"]]}
                       for e in m["events"]],
            "odes": [(o["state"], ir.to_str(o["expr"])) for o in m.get("odes", [])]}


SELFTESTS = [jets.selftest]
