"""C08 - evaluators never go stale after a model is modified (histories)."""
import copy

import numpy as np
from hypothesis import strategies as st
from hypothesis.stateful import rule, initialize, precondition

from pbt import ir, jets, render, strategies as S, evalref, machines
from pbt.harness import PropertyViolation, Inconclusive
from pbt.util import pretty

ID = "C08"
TITLE = "Evaluators never go stale after a model is modified"
RULE = ("Hypothesis rule-based state machine over one live SimulateOde and an abstract mirror of its definition. Start: a "
        "generated model (1-3 states, 0-3 parameters, 0-2 events, 0-1 ODE terms, 0-1 derived parameters). Rules: add_event(Event), "
        "add_event(Transition with equation), add_event(Event whose member transition carries the rate), add_transition, "
        "add_birth_death (birth and death), add_ode / ode_list=[..] / ode_list=Transition, param_list = old+[new] / [new] / 'new', "
        "derived_param_list=[(name, eqn)] for a new name or for an existing one (re-definition), a sibling model (same names and rates, other derived-parameter / ODE definitions) built and evaluated in the same process, parameters = full list | tuple | array | dict by name | dict by symbol | pair list | "
        "partial dict, and evaluate(subset of the 11 compiled evaluators at a generated (x,t)). Evaluation is enabled when every "
        "parameter referenced by the definition has a value. Oracle after every evaluate step and at the end of the history (all "
        "11): each evaluated function equals (rtol 1e-9) the value from a freshly constructed model rendered from the mirror with "
        "the same values AND the value computed from the mirror by floats/jets; if the fresh model evaluates and the live one "
        "raises, that is a violation. Non-trivial = a structural modification after an evaluation, followed by an evaluation of a "
        "function that had been compiled before the modification; distinct by operation-sequence hash.")
ASSUMPTIONS = [
    "states are not added after construction (the statement lists transitions, events, birth/death processes, ODE terms, parameters and values)",
    "legacy add_transition / add_birth_death are used with magnitude 1 (they do not carry a magnitude)",
    "a parameter that no equation references may be left without a value (a partial dict is an accepted way to assign); "
    "parameters referenced by the definition must have a value before an evaluation is generated",
    "lambdify back-end (the staleness logic is back-end independent); fresh Transition/Event objects for every model",
]
BUDGET = {"quick": (4, 60), "thorough": (16, 400)}
STEPS = 12
ENGINE = "hypothesis"
TECHNIQUE = ("stateful property-based testing (Hypothesis RuleBasedStateMachine over modification/evaluation histories) with a "
             "differential oracle against a freshly constructed model and an independent float/jet evaluator of the mirrored definition")
LEVEL_TEXT = ("Exploration over operation histories up to 12 steps: every evaluator observed after a modification is compared with a "
              "fresh model of the same final definition. Right level: which mutator forgets to invalidate which evaluator is a "
              "property of histories; the machine generates the interleavings (evaluate only some functions, modify, evaluate "
              "others) that create divergent per-evaluator flags.")
LEVEL_NOTE = ("Trusts that a freshly constructed model is correct only in conjunction with the independent mirror evaluator (both must "
              "agree with the live model); bounded history length; lambdify back-end.")
DESIGN_REF = "DESIGN.md section 3 (C08), section 4 (F6)"

STRUCTURAL = {"add_event", "add_transition", "add_birth_death", "add_ode", "add_param", "add_derived", "redefine_derived"}
NEW_PARAM_POOL = ["zeta", "eta", "theta1", "chi", "psi", "lam", "xi", "q0", "r0", "w"]


# ------------------------------------------------------------------------------------------------ world
class World:
    def __init__(self, rec):
        self.rec = rec
        self.m = None            # mirror (IR)
        self.model = None
        self.values = {}         # parameter name -> value (assigned ones only)
        self.compiled = set()    # evaluators evaluated at least once
        self.compiled_before_mutation = set()
        self.mutated_since_eval = False
        self.nontrivial = False
        self.n_ops = 0
        self.last_point = None

    # ---- helpers
    def referenced_params(self):
        m = self.m
        out = set()
        for ev in m["events"]:
            out |= ir.atoms(ev["rate"], "p")
            for tr in ev["trans"]:
                out |= ir.atoms(ir.mag_expr(tr["mag"]), "p")
        for o in m["odes"]:
            out |= ir.atoms(o["expr"], "p")
        for d in m["derived"]:
            out |= ir.atoms(d["expr"], "p")
        return out

    def can_eval(self):
        if self.m is None:
            return False
        if not self.m["params"]:
            return True
        if not self.values:
            return False         # "Have not set the parameters yet"
        return self.referenced_params() <= set(self.values)

    def theta(self):
        return [float(self.values.get(p, 0.0)) for p in self.m["params"]]

    def fresh(self):
        model, order = render.build(copy.deepcopy(self.m))
        if self.m["params"]:
            model.parameters = {p: self.values[p] for p in self.m["params"] if p in self.values}
        return model, order

    # ---- operations
    def apply(self, op):
        self.n_ops += 1
        kind = op["op"]
        case = None
        if kind == "init":
            self.m = copy.deepcopy(op["model"])
            try:
                self.model, _o = render.build(copy.deepcopy(self.m))
            except Exception as e:
                raise PropertyViolation("C08/construct/" + type(e).__name__, "constructing the model raised %r" % (e,), case)
            self.rec.label("init:nS=%d" % len(ir.state_names(self.m)), "init:nP=%d" % len(self.m["params"]),
                           "init:nE=%d" % len(self.m["events"]))
            return
        self.rec.label("op:" + kind + (":" + op.get("via", op.get("form", op.get("route", ""))) if kind != "eval" else ""))
        if kind in STRUCTURAL and self.compiled:
            self.rec.label("after-compilation:" + kind + ":" + op.get("via", op.get("route", "")))
        if kind in STRUCTURAL:
            if self.compiled:
                self.compiled_before_mutation |= self.compiled
                self.mutated_since_eval = True
        try:
            getattr(self, "_op_" + kind)(op)
        except (PropertyViolation, Inconclusive):
            raise
        except Exception as e:
            if kind in ("eval", "finish"):
                raise
            raise PropertyViolation("C08/%s/raises-%s" % (kind, type(e).__name__),
                                    "%s raised %s: %s" % (kind, type(e).__name__, str(e)[:300]), case)

    def _op_set_params(self, op):
        if any(0 < abs(v) < 1e-6 for v in op["values"].values()):
            self.rec.label("values:tiny-scale")
        names = list(op["values"])
        vals = op["values"]
        form = op["form"]
        import sympy
        if form == "list":
            arg = [vals[p] for p in self.m["params"]]
        elif form == "tuple":
            arg = tuple(vals[p] for p in self.m["params"])
        elif form == "array":
            arg = np.array([vals[p] for p in self.m["params"]], float)
        elif form == "pairs":
            arg = [(p, vals[p]) for p in names]
        elif form == "symdict":
            arg = {sympy.Symbol(p): vals[p] for p in names}
        else:                     # dict, partial
            arg = {p: vals[p] for p in names}
        self.model.parameters = arg
        self.values.update({p: float(v) for p, v in vals.items()})

    def _op_add_param(self, op):
        new = op["names"]
        via = op["via"]
        if via == "concat":
            self.model.param_list = list(self.m["params"]) + list(new)
        elif via == "string":
            self.model.param_list = new[0]
        else:
            self.model.param_list = list(new)
        self.m["params"] = self.m["params"] + [n for n in new if n not in self.m["params"]]

    def _op_add_derived(self, op):
        self.model.derived_param_list = [(op["name"], ir.to_str_top(op["expr"]))]
        self.m["derived"].append({"name": op["name"], "expr": op["expr"]})

    def _op_redefine_derived(self, op):
        self.model.derived_param_list = [(op["name"], ir.to_str_top(op["expr"]))]
        for d in self.m["derived"]:
            if d["name"] == op["name"]:
                d["expr"] = op["expr"]

    def _op_add_event(self, op):
        ev = op["event"]
        self.model.add_event(render.event_object(ev, op["route"]))
        self.m["events"].append(ev)

    def _op_add_transition(self, op):
        ev = op["event"]
        self.model.add_transition(render.event_object(ev, "legacy"))
        self.m["events"].append(ev)

    def _op_add_birth_death(self, op):
        ev = op["event"]
        self.model.add_birth_death(render.event_object(ev, "legacy"))
        self.m["events"].append(ev)

    def _op_add_ode(self, op):
        from pygom import Transition
        o = op["ode"]
        tr = Transition(origin=o["state"], equation=ir.to_str_top(o["expr"]), transition_type="ODE")
        if op["via"] == "add_ode":
            self.model.add_ode(tr)
        elif op["via"] == "ode_list":
            self.model.ode_list = [tr]
        else:
            self.model.ode_list = tr
        self.m["odes"].append(o)

    def _op_sibling(self, op):
        """Another model is built and evaluated in the same process: same names, rates and magnitudes as ours, other
        definitions of the derived parameters and ODE terms."""
        sib = copy.deepcopy(self.m)
        for d_ in sib["derived"]:
            d_["expr"] = ir.mul(ir.C(2), d_["expr"])
        for o_ in sib["odes"]:
            o_["expr"] = ir.mul(ir.C(3), o_["expr"])
        n_s = len(ir.state_names(sib))
        try:
            sm, _o = render.build(sib)
            if sib["params"]:
                sm.parameters = {p: self.values[p] for p in sib["params"] if p in self.values}
            x = [1.25 + 0.5 * i for i in range(n_s)]
            for nm in evalref.EVALUATORS:
                try:
                    getattr(sm, nm)(x, 0.3)
                except Exception:
                    pass
        except Exception:
            self.rec.label("sibling-could-not-be-built")

    def _op_eval(self, op):
        self._evaluate(op["names"], op["x"], op["t"], op)

    def _op_finish(self, op):
        if not self.can_eval():
            return
        self._evaluate(list(evalref.EVALUATORS), op["x"], op["t"], op)

    def final_op(self):
        if self.m is None or not self.can_eval():
            return None
        n_s = len(ir.state_names(self.m))
        return {"op": "finish", "x": [1.5 + 0.75 * i for i in range(n_s)], "t": 0.7}

    def _evaluate(self, names, x, t, op):
        m = self.m
        n_s, n_p, n_e = len(ir.state_names(m)), len(m["params"]), len(m["events"])
        theta = self.theta()
        shp = evalref.shapes(n_s, n_p, n_e)
        ref = evalref.reference_all(m, x, t, theta)
        if not all(np.isfinite(v).all() for v in ref.values()):
            raise Inconclusive("reference not finite")
        fresh, _order = self.fresh()
        stale_hit = False
        for nm in names:
            if nm in evalref.EVENT_EVALUATORS and n_e == 0:
                continue                 # an empty matrix has no numeric evaluator (fresh or live)
            try:
                want = np.asarray(getattr(fresh, nm)(x, t), float)
            except Exception:
                self.rec.label("fresh-cannot-evaluate:" + nm)
                continue
            if want.size != int(np.prod(shp[nm])):
                self.rec.label("fresh-odd-shape:" + nm)
                continue
            want = want.reshape(shp[nm])
            key = "C08/%s" % nm
            # the mirror evaluator and the fresh model must agree, otherwise the oracle itself is in doubt (C01/C03 territory)
            if nm in ref and not _close(want, ref[nm]):
                # who is right?  Build the same definition in a clean interpreter: if it agrees with the mirror there, the
                # construction is fine and something left behind in THIS process (by the history, or by another model) has
                # corrupted both the live and the fresh model - which is what this property is about
                from pbt import cleaneval
                clean = cleaneval.in_clean_process(copy.deepcopy(m), dict(self.values), [nm], x, t)
                if nm in clean and np.size(clean[nm]) == np.size(ref[nm]) and _close(np.asarray(clean[nm], float).reshape(np.shape(ref[nm])), ref[nm]):
                    raise PropertyViolation(key + "/process-state", "%s(x,t) of a freshly constructed model differs from the model's definition "
                                            "in this process (%s vs %s) but not in a clean interpreter: state left behind by earlier models or "
                                            "modifications leaks into new compilations" % (nm, np.ravel(want)[:4], np.ravel(ref[nm])[:4]), None)
                raise Inconclusive("fresh model and mirror evaluator disagree")
            try:
                got = np.asarray(getattr(self.model, nm)(x, t), float)
            except Exception as e:
                raise PropertyViolation(key + "/raises", "%s(x,t) on the modified model raised %s (%s) while a freshly constructed "
                                        "model of the same definition returns a value" % (nm, type(e).__name__, str(e)[:200]), None)
            if got.size != want.size:
                raise PropertyViolation(key + "/size", "%s(x,t) has %d entries on the modified model, %d on a fresh model" % (
                    nm, got.size, want.size), None)
            got = got.reshape(shp[nm])
            if not _close(got, want):
                i = tuple(int(k) for k in np.argwhere(~_close_mask(got, want))[0])
                raise PropertyViolation(key + "/stale", "%s(x,t) differs from a freshly constructed model at %s: modified model "
                                        "%.15g, fresh model %.15g" % (nm, i, got[i], want[i]), None)
            if self.mutated_since_eval and nm in self.compiled_before_mutation:
                stale_hit = True
            self.compiled.add(nm)
        if self.mutated_since_eval:
            # functions evaluated now are up to date; those not evaluated keep their pre-mutation compilation
            self.compiled_before_mutation -= set(names)
            if not self.compiled_before_mutation:
                self.mutated_since_eval = False
        if stale_hit:
            self.rec.label("recompiled-after-mutation")
            self.nontrivial = True
        if stale_hit and not getattr(self, "marked", False):
            self.marked = True
            self.rec.mark_nontrivial({"m": m, "n": self.n_ops, "x": x}, {"definition": pretty(m), "values": dict(self.values),
                                                                         "evaluated": names})


def _close_mask(a, b, rtol=1e-9, atol=1e-12):
    scale = np.maximum(np.abs(a), np.abs(b))
    floor = atol * (1 + (float(np.abs(b).max()) if np.size(b) else 0.0))
    return (np.abs(a - b) <= rtol * scale + floor) & np.isfinite(a)


def _close(a, b, rtol=1e-9, atol=1e-12):
    return bool(_close_mask(np.asarray(a, float), np.asarray(b, float), rtol, atol).all())


# ------------------------------------------------------------------------------------------------ machine
def _single_event(draw, w, kinds):
    m = w.m
    states = ir.state_names(m)
    dn = [d["name"] for d in m["derived"]]
    rate, rk = draw(S.rate_expr(states, m["params"], dn))
    trs = draw(S.transitions_for_event(states, m["params"], dn, 1, kinds=kinds, integer_mag=True, mag_hi=1))
    return {"rate": rate, "rate_kind": rk, "trans": trs}


VARIANTS = ["add_event:event", "add_event:trans", "add_event:event_eq", "add_transition", "add_birth_death:B", "add_birth_death:D",
            "add_ode:add_ode", "add_ode:ode_list", "add_ode:ode_list_single", "add_param:concat", "add_param:list",
            "add_param:string", "add_derived", "redefine_derived", "shadow_param", "shadow_param", "shadow_param"]


def _redefinable(m):
    """Derived parameters no other derived parameter refers to (a reference is resolved when the referring one is defined,
    so re-defining the inner one later is not meant to propagate)."""
    used = set()
    for d in m["derived"]:
        used |= ir.atoms(d["expr"], "d")
    return [d["name"] for d in m["derived"] if d["name"] not in used]


def _shadowable(m):
    """Parameters that a rate / magnitude / ODE term mentions, that no derived parameter mentions and that are not shadowed yet."""
    used = set()
    for ev in m["events"]:
        used |= ir.atoms(ev["rate"], "p")
    for o in m["odes"]:
        used |= ir.atoms(o["expr"], "p")
    in_mag = set()
    for ev in m["events"]:
        for tr in ev["trans"]:
            in_mag |= ir.atoms(ir.mag_expr(tr["mag"]), "p")
    in_der = set()
    for d in m["derived"]:
        in_der |= ir.atoms(d["expr"], "p")
    taken = {d["name"] for d in m["derived"]}
    return sorted(p for p in used if p not in in_der and p not in taken and p not in in_mag)


def _draw_modification(data, w):
    """One structural modification, uniformly over the (mutator, input form) variants that apply."""
    m = w.m
    states = ir.state_names(m)
    dn = [d["name"] for d in m["derived"]]
    variants = [v for v in VARIANTS
                if not (v == "add_transition" and len(states) < 2)
                and not (v.startswith("add_param") and len(m["params"]) >= 6)
                and not (v == "add_derived" and (not m["params"] or len(m["derived"]) >= 3))
                and not (v == "redefine_derived" and (not m["params"] or not _redefinable(m)))
                and not (v == "shadow_param" and not _shadowable(m))]
    v = data.draw(st.sampled_from(variants))
    kind, _, sub = v.partition(":")
    if kind == "add_event":
        rate, rk = data.draw(S.rate_expr(states, m["params"], dn))
        n_tr = 1 if sub == "trans" else data.draw(st.sampled_from([1, 1, 2]))
        trs = data.draw(S.transitions_for_event(states, m["params"], dn, n_tr))
        return {"op": "add_event", "route": sub, "event": {"rate": rate, "rate_kind": rk, "trans": trs}}
    if kind == "add_transition":
        return {"op": "add_transition", "event": _single_event(data.draw, w, "T")}
    if kind == "add_birth_death":
        ev = _single_event(data.draw, w, sub)
        for tr in ev["trans"]:
            tr["birth_by"] = "destination"
        return {"op": "add_birth_death", "via": sub, "event": ev}
    if kind == "add_ode":
        e, _k = data.draw(S.rate_expr(states, m["params"], dn))
        if data.draw(st.booleans()):
            e = ir.neg(e)
        return {"op": "add_ode", "via": sub, "ode": {"state": data.draw(st.sampled_from(states)), "expr": e}}
    if kind == "add_param":
        free = [p for p in NEW_PARAM_POOL if p not in m["params"]]
        new = data.draw(st.lists(st.sampled_from(free), min_size=1, max_size=2, unique=True))
        if sub == "string":
            new = new[:1]          # the setter documents a list of names; a bare string is taken as ONE name
        return {"op": "add_param", "names": new, "via": sub}
    if kind == "shadow_param":
        # a derived parameter defined under the NAME OF AN EXISTING PARAMETER (the constant N becomes N = a function of other
        # parameters): every rate that mentions the name now means the derived expression
        name = data.draw(st.sampled_from(_shadowable(m)))
        others = [q for q in m["params"] if q != name and q not in {d["name"] for d in m["derived"]}]
        k = data.draw(S.coef(others))
        e = ir.div(ir.mul(ir.C(data.draw(st.sampled_from([2, 3, 5]))), k), ir.add(ir.C(2), data.draw(S.coef(others))))
        return {"op": "add_derived", "name": name, "expr": e, "via": "shadow"}
    if kind == "redefine_derived":
        # the same name defined again through the setter: the latest definition is the model's
        name = data.draw(st.sampled_from(_redefinable(m)))
        plain = [q for q in m["params"] if q not in {d["name"] for d in m["derived"]}]     # never the shadowed names themselves
        k = data.draw(S.coef(plain))
        e = ir.div(ir.mul(ir.C(data.draw(st.sampled_from([2, 3, 5]))), k), ir.add(ir.C(2), data.draw(S.coef(plain))))
        return {"op": "redefine_derived", "name": name, "expr": e}
    name = [n for n in ["dd1", "dd2", "dd3", "dd4"] if n not in dn][0]
    plain = [q for q in m["params"] if q not in set(dn)]
    k = data.draw(S.coef(plain))
    e = ir.div(k, ir.add(ir.C(1), data.draw(S.coef(plain))))
    if m["derived"] and data.draw(st.booleans()):
        e = ir.mul(e, ir.D(m["derived"][-1]["name"]))
    return {"op": "add_derived", "name": name, "expr": e}


def _draw_eval(data, w, prefer_compiled=False):
    m = w.m
    pool = list(evalref.EVALUATORS)
    if prefer_compiled and w.compiled and data.draw(st.booleans()):
        pool = sorted(w.compiled)
    names = data.draw(st.lists(st.sampled_from(pool), min_size=1, max_size=min(5, len(pool)), unique=True))
    n_s = len(ir.state_names(m))
    x = [data.draw(S.fl(0.1, 20.0)) for _ in range(n_s)]
    return {"op": "eval", "names": names, "x": x, "t": data.draw(S.fl(0.0, 20.0))}


def machine(tier, rec, ctl):
    class C08Machine(machines.Base):
        WORLD = World

        @initialize(m=S.general_model(max_states=3, max_params=3, max_events=2, min_params=0, allow_range=False))
        def init(self, m):
            m["odes"] = m["odes"][:1]
            self.do({"op": "init", "model": m})

        # ---- parameter values
        @precondition(lambda self: self.dead or (self.world is not None and self.world.m["params"]))
        @rule(data=st.data())
        def set_params(self, data):
            if self.dead:
                return
            w = self.world
            params = w.m["params"]
            form = data.draw(st.sampled_from(["list", "tuple", "array", "dict", "symdict", "pairs", "partial", "partial"]))
            if form == "partial":
                names = data.draw(st.lists(st.sampled_from(params), min_size=1, max_size=len(params), unique=True))
                form = data.draw(st.sampled_from(["dict", "symdict"])) if len(names) == len(params) else "partial"
            elif form in ("dict", "symdict", "pairs"):
                names = list(data.draw(st.permutations(params)))
            else:
                names = list(params)
            # some histories live at a tiny parameter scale (per-capita rates of a model in absolute head counts): every
            # value, and hence every change between two assignments, is far below 1e-8 in absolute terms
            # (or only some parameters are tiny - a per-capita rate next to an ordinary one - and a later assignment changes
            # nothing but those)
            if not hasattr(self, "_pscale"):
                self._pscale = data.draw(st.sampled_from(["unit", "unit", "unit", "mixed", "mixed"]))
                self._pscales, self._last = {}, {}
            vals = {}
            keep_ordinary = self._pscale == "mixed" and data.draw(st.booleans())
            for p in names:
                if p not in self._pscales:
                    # mixed: the first parameter met stays ordinary (so that a fresh model's first assignment is never
                    # all-tiny), the second is tiny, the others either
                    k = len(self._pscales)
                    self._pscales[p] = 1.0 if (self._pscale == "unit" or k == 0) else 1e-9 if k == 1 else \
                        data.draw(st.sampled_from([1.0, 1e-9]))
                if keep_ordinary and self._pscales[p] == 1.0 and p in self._last:
                    vals[p] = self._last[p]
                else:
                    vals[p] = S.sig(data.draw(S.fl(0.05, 5.0)) * self._pscales[p], 4)
            self._last.update(vals)
            self.do({"op": "set_params", "form": form, "values": vals})

        # ---- structural modifications
        @precondition(lambda self: self.dead or (self.world is not None))
        @rule(data=st.data())
        def modify(self, data):
            if self.dead:
                return
            self.do(_draw_modification(data, self.world))

        @precondition(lambda self: self.dead or (self.world is not None and self.world.compiled))
        @rule(data=st.data())
        def modify_then_evaluate(self, data):
            """A modification directly followed by an evaluation, so that every mutator is observed on its own."""
            if self.dead:
                return
            if self.do(_draw_modification(data, self.world)) and self.world.can_eval():
                self.do(_draw_eval(data, self.world, prefer_compiled=True))

        @precondition(lambda self: self.dead or (self.world is not None and self.world.can_eval()
                                                 and (self.world.m["derived"] or self.world.m["odes"])
                                                 and getattr(self, "_siblings", 0) < 1))
        @rule()
        def sibling_model(self):
            if self.dead:
                return
            self._siblings = getattr(self, "_siblings", 0) + 1
            self.do({"op": "sibling"})

        # ---- evaluation
        @precondition(lambda self: self.dead or (self.world is not None and self.world.can_eval()))
        @rule(data=st.data())
        def evaluate(self, data):
            if self.dead:
                return
            self.do(_draw_eval(data, self.world))

        @precondition(lambda self: self.dead or (self.world is not None and self.world.can_eval()))
        @rule(data=st.data())
        def evaluate_one(self, data):
            if self.dead:
                return
            op = _draw_eval(data, self.world)
            op["names"] = op["names"][:1]
            self.do(op)

    C08Machine.rec = rec
    C08Machine.ctl = ctl
    return C08Machine


def replay(case, rec):
    machines.replay_ops(World, case, rec)


SELFTESTS = [jets.selftest]
