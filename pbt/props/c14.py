"""C14 - loss kernels are the negative log-likelihoods they are named after."""
import numpy as np
from hypothesis import strategies as st

from pbt import refdist, strategies as S
from pbt.harness import PropertyViolation, Inconclusive
from pbt.util import call

ID = "C14"
TITLE = "Loss kernels are the negative log-likelihoods they are named after"
RULE = ("Hypothesis draws the loss class, n in 1..12 observations, p in 1..3 columns, y and predictions > 0 (integers for count data), "
        "a spread parameter (sigma, shape, k > 0) as scalar, per-observation array or the class default, weights (Square and Normal), and the "
        "input layout: vector (n,), single-column prediction (n,1) against vector data (what the ODE loss passes for one observed state), a single-row prediction (1,n), or (n,p). "
        "Objects are built through the public classes. Oracle: loss == sum of reference negative log densities (mpmath, own formulas in mean "
        "parameterisation; Square == sum (w(y-yhat))^2), rtol 1e-10; diff_loss and diff2Loss with unit weights == first / second derivative of "
        "the reference w.r.t. each prediction (mpmath.diff, rtol 1e-8), with the output shaped like the data. "
        "Non-trivial = n >= 3, every y differs from its prediction, and (non-scalar spread or 2-D input); distinct by case hash.")
ASSUMPTIONS = [
    "y is passed as a numpy array (the ODE loss classes always convert first)",
    "non-unit weights are exercised for the loss value of Square and Normal only, as the statement restricts",
]
FUZZ = {"quick": {"runs": 1500, "campaigns": [("empty", 0), ("seeded", 1)]},
        "thorough": {"runs": 40000, "campaigns": [("empty", 0), ("empty", 1)] + [("seeded", 2 + i) for i in range(6)]}}
BUDGET = {"quick": (4, 400), "thorough": (16, 5000)}
TECHNIQUE = "property-based testing (Hypothesis @given) against mpmath reference log-densities and their numerically exact derivatives; plus coverage-guided fuzzing (atheris/libFuzzer through fuzz_one_input) with the same oracle"
LEVEL_TEXT = ("Exploration: thousands of generated (class, shape, spread form, data) cases compared with closed-form references; "
              "right level for pure array kernels whose bugs are shape/broadcast/sign slips.")
LEVEL_NOTE = "Trusts mpmath loggamma/diff at 30 digits."
DESIGN_REF = "DESIGN.md section 3 (C14), section 4 (F5)"

KINDS = ["Square", "Normal", "Poisson", "Gamma", "NegBinom"]


def strategy(tier):
    @st.composite
    def case(draw):
        kind = draw(st.sampled_from(KINDS))
        layout = draw(st.sampled_from(["vector", "vector", "column", "matrix", "row"]))
        # (n,p) input needs n >= 2: a 1 x p array is indistinguishable from a vector for the kernels
        n = draw(st.integers(2 if layout == "matrix" else 1, 12))
        p = draw(st.integers(2, 3)) if layout == "matrix" else 1
        count = kind in ("Poisson", "NegBinom")
        # observations may arrive as an integer typed array (counts, e.g. from np.random.poisson) for any kernel
        y_dtype = draw(st.sampled_from(["float", "float", "int"]))
        whole = count or y_dtype == "int"
        y = [[draw(st.integers(0 if count else 1, 60)) if whole else draw(S.fl(0.05, 50.0, 4)) for _ in range(p)] for _ in range(n)]
        yhat = [[draw(S.fl(0.05, 60.0, 4)) for _ in range(p)] for _ in range(n)]
        sform = draw(st.sampled_from(["default", "scalar", "array", "special", "explicit-none"]))
        spread = None
        # spreads of every size: an almost-Poisson negative binomial (k of order 1e6), a sharply peaked gamma, a wide normal
        sscale = draw(st.sampled_from([1.0, 1.0, 1.0, 1.0, 1e3, 1e6]))
        if kind in ("Normal", "Gamma", "NegBinom"):
            if sform == "scalar":
                spread = S.sig(draw(S.fl(0.2, 8.0, 3)) * sscale, 4)
            elif sform == "array":
                spread = [[S.sig(draw(S.fl(0.2, 8.0, 3)) * sscale, 4) for _ in range(p)] for _ in range(n)]
            elif sform == "special":
                spread = {"Normal": 1.0, "Gamma": 2.0, "NegBinom": 1.0}[kind]
        # weights: the loss VALUE with weights is only defined by the statement for Square and Normal, but every kernel accepts
        # weights, and diff_loss / diff2Loss(..., apply_weighting=False) must then still be the derivatives of the unweighted loss
        wform = draw(st.sampled_from(["none", "none", "array"]))
        w = [[draw(S.fl(0.1, 3.0, 3)) for _ in range(p)] for _ in range(n)] if wform == "array" else None
        # whole-number spreads / weights handed over as an integer typed array (sigma = np.array([1, 2, 2, 3]))
        spread_dtype = draw(st.sampled_from(["float", "float", "int"]))
        if spread_dtype == "int" and isinstance(spread, list):
            spread = [[float(max(1, round(v))) for v in row] for row in spread]
        elif spread_dtype == "int" and isinstance(spread, float):
            spread = float(max(1, round(spread)))
        if spread_dtype == "int" and w is not None:
            w = [[float(max(1, round(v))) for v in row] for row in w]
        return {"kind": kind, "layout": layout, "y": y, "yhat": yhat, "spread": spread, "weights": w, "y_dtype": y_dtype,
                "spread_dtype": spread_dtype,
                "spread_none": sform == "explicit-none", "weights_none": draw(st.booleans())}
    return case()


def _shape(a, layout, what):
    a = np.array(a, float)
    if layout == "matrix":
        return a
    if what == "yhat" and layout == "column":
        return a.reshape(-1, 1)
    if what == "yhat" and layout == "row":
        return a.reshape(1, -1)           # np.atleast_2d(yhat) / yhat[None, :]: the kernels flatten single rows too
    return a.reshape(-1)


def oracle(case, rec):
    from pygom.loss import loss_type
    kind, layout = case["kind"], case["layout"]
    y = _shape(case["y"], layout, "y")
    yhat = _shape(case["yhat"], layout, "yhat")
    n = y.shape[0]
    spread = case["spread"]
    sp_arr = None
    if isinstance(spread, list):
        sp_arr = _shape(spread, layout, "y")
    w = _shape(case["weights"], layout, "y") if case["weights"] is not None else None
    key = "C14/%s" % kind
    rec.label("kind:" + kind, "layout:" + layout,
              "spread:" + ("array" if sp_arr is not None else "default" if spread is None else "scalar"),
              "weights:" + ("array" if w is not None else "none"))
    cls = getattr(loss_type, kind)
    kw = {}
    int_sp = case.get("spread_dtype") == "int"
    if kind in ("Normal", "Gamma", "NegBinom") and spread is not None:
        sp_val = sp_arr if sp_arr is not None else spread
        if int_sp:
            sp_val = np.rint(sp_arr).astype(np.int64) if sp_arr is not None else int(round(spread))
            rec.label("spread:int-typed")
        kw[{"Normal": "sigma", "Gamma": "shape", "NegBinom": "k"}[kind]] = sp_val
    elif kind in ("Normal", "Gamma", "NegBinom") and case.get("spread_none"):
        # the optional spread passed explicitly as None must mean the documented default, exactly like leaving it out
        kw[{"Normal": "sigma", "Gamma": "shape", "NegBinom": "k"}[kind]] = None
        rec.label("spread:explicit-None")
    y_arg = y.copy()
    if case.get("y_dtype") == "int" and np.all(y == np.rint(y)):
        y_arg = np.rint(y).astype(np.int64)
        rec.label("y:int-typed")
    w_arg = w.copy() if w is not None else None
    if int_sp and w is not None:
        w_arg = np.rint(w).astype(np.int64)
        rec.label("weights:int-typed")
    obj = call(key + "/construct", case, cls, y_arg, w_arg, **kw)
    default = {"Normal": 1.0, "Gamma": 2.0, "NegBinom": 1.0}.get(kind)
    yf = y.reshape(-1)
    mf = yhat.reshape(-1) if layout != "matrix" else yhat.reshape(-1)
    sf = (sp_arr.reshape(-1) if sp_arr is not None else np.full(yf.shape, spread if spread is not None else (default or 0.0)))
    wf = w.reshape(-1) if w is not None else np.ones(yf.shape)
    # ---- loss value
    if w is not None and kind not in ("Square", "Normal"):
        # (for the other kernels only the unweighted loss is defined by the statement)
        wf = np.ones(yf.shape)
        got = call(key + "/loss", case, obj.loss, yhat.copy(), False)
        rec.label("loss:apply_weighting=False")
    else:
        got = call(key + "/loss", case, obj.loss, yhat.copy())
    ref = sum(refdist.nll(kind, yf[i], mf[i], sf[i], wf[i]) for i in range(len(yf)))
    try:
        g = float(got)
    except Exception:
        raise PropertyViolation(key + "/loss-type", "loss returned %r" % (got,), case)
    r = float(ref)
    # rounding of the library's own float64 formula: log-gamma terms of size k*log(k) cancel to O(1) for large spreads
    cancel = 0.0
    if kind in ("NegBinom", "Gamma"):
        import math
        for i in range(len(yf)):
            k_ = float(sf[i])
            cancel += 8e-16 * (abs(math.lgamma(k_ + yf[i])) + abs(math.lgamma(k_)) + k_ * abs(math.log(k_)) + k_ * abs(math.log(mf[i]))
                               + (k_ + yf[i]) * abs(math.log(k_ + mf[i])) + k_ * yf[i] / mf[i])
    if spread is not None and (np.max(sf) >= 1e3):
        rec.label("spread:large")
    if not np.isfinite(g) or abs(g - r) > 1e-10 * (abs(r) + sum(abs(float(refdist.nll(kind, yf[i], mf[i], sf[i], wf[i]))) for i in range(len(yf)))) + 1e-12 + cancel:
        raise PropertyViolation(key + "/loss", "loss = %.17g, reference -sum(log density) = %.17g (layout %s)" % (g, r, layout), case)
    # ---- derivatives of the UNWEIGHTED loss (with weights present: asked for explicitly with apply_weighting=False)
    if True:
        for fn, dfun, tag in (("diff_loss", refdist.d1, "diff_loss"), ("diff2Loss", refdist.d2, "diff2Loss")):
            if w is None:
                out = call("%s/%s" % (key, tag), case, getattr(obj, fn), yhat.copy())
            else:
                tag = tag + "/apply_weighting=False"
                out = call("%s/%s" % (key, tag), case, getattr(obj, fn), yhat.copy(), False)
            out = np.asarray(out, float)
            if out.size != yf.size:
                raise PropertyViolation("%s/%s/shape" % (key, tag), "%s returned shape %s for data of shape %s and prediction of shape %s" % (
                    fn, out.shape, y.shape, yhat.shape), case)
            if out.shape != y.shape:
                raise PropertyViolation("%s/%s/shape" % (key, tag), "%s returned shape %s, data has shape %s" % (fn, out.shape, y.shape), case)
            refd = np.array([float(dfun(kind, yf[i], mf[i], sf[i])) for i in range(len(yf))])
            of = out.reshape(-1)
            bad = np.abs(of - refd) > 1e-8 * (np.abs(refd) + 1e-9) + 1e-11
            if bad.any() or not np.isfinite(of).all():
                i = int(np.argmax(bad | ~np.isfinite(of)))
                raise PropertyViolation("%s/%s" % (key, tag), "%s[%d] = %.15g, reference derivative = %.15g (y=%r, yhat=%r, spread=%r)" % (
                    fn, i, of[i], refd[i], yf[i], mf[i], sf[i]), case)
    if n >= 3 and (yf != mf).all() and (sp_arr is not None or layout != "vector"):
        rec.mark_nontrivial(case)


SELFTESTS = [refdist.selftest]
