"""C02 - deterministic solvers return the ODE solution at each requested time."""
import numpy as np
from hypothesis import strategies as st

from pbt import ir, refsolve, render, jets, strategies as S
from pbt.harness import PropertyViolation, Inconclusive
from pbt.util import call, pretty

ID = "C02"
TITLE = "Deterministic solvers return the ODE solution at each requested time"
RULE = ("Hypothesis draws either a generated benign ODE model (chains, epidemic mass action, saturating interactions, periodic forcing; 1-4 states) "
        "or a catalogue model with a parameter / initial-state box (SIS, SIS_Periodic, SIR, SEIR, SIR_Birth_Death, SEIR_Birth_Death, "
        "SEIR_Birth_Death_Periodic, Lotka_Volterra, FitzHugh, SIR_norm, vanDerPol with small mu, Lorenz and Robertson on short horizons; SIS_Periodic with forcing period 0.25-0.6 on a SPARSE grid of 1-3 times out to t0+45, i.e. thousands of internal solver steps between two outputs), a grid of "
        "1-12 strictly increasing times after t0 (uniform or non-uniform with gaps from 1e-3 to 2; list, tuple, array or a single number; in 3 of 8 cases instead a decreasing grid before t0 (backward integration), a grid whose first entry is t0 itself, or a grid with one time asked twice) and an entry "
        "point in {integrate, integrate(full_output=True), solve_determ, integrate2(method, full_output), ode_utils.integrateFuncJac(method, "
        "full_output, includeOrigin)} with method in {None, lsoda, vode, ivode, dopri5, dop853}; grids also as integer typed arrays / lists / tuples with a fractional t0, x0 as list / tuple / array / Python ints / integer typed array; in half of the cases a SECOND solve follows on the same model object with another entry point, method, grid and initial condition. Oracle: number of rows = len(grid) (+1 where the "
        "origin is included, and then row 0 == x0 exactly); row k vs an independent reference solution at t_k (two scipy solve_ivp references at "
        "rtol 1e-12 must agree): |diff| <= tol*(1+max|x_ref|), tol = 1e-5 for the odeint path and 1e-6 for integrateFuncJac; full_output=True returns "
        "(solution, info). Conditioning is measured per case (error of a rtol=1e-6 run / 1e-6); amplification > 20 => inconclusive. "
        "Non-trivial = >=3 requested times and the reference moves by more than 100*tol between first and last time; distinct by case hash.")
ASSUMPTIONS = [
    "for generated models the reference integrates the abstract model's own right-hand side; for catalogue models it integrates the model's ode() (C01 covers assembly)",
    "ill-conditioned cases (amplification > 20) and cases where the two references disagree are inconclusive, never violations",
]
BUDGET = {"quick": (4, 250), "thorough": (16, 1500)}
TECHNIQUE = "property-based testing (Hypothesis @given over models, grids, entry points and integrator methods) against independent high-accuracy reference solutions"
LEVEL_TEXT = ("Exploration over programs, inputs and configurations: every solving entry point and method is compared row by row with "
              "an independent reference solution; the targeted bugs (aliased rows, shifted grids, dropped origin) give O(1) errors.")
LEVEL_NOTE = "Tolerances are 1e3-1e5 times the solvers' own; errors below them are invisible ('within solver tolerance')."
DESIGN_REF = "DESIGN.md section 3 (C02), section 4 (F1, F2)"

METHODS = [None, "lsoda", "vode", "ivode", "dopri5", "dop853"]

CATALOGUE = {
    # name: (param box, x0 box, max horizon)
    "SIS": ({"beta": (0.2, 1.5), "gamma": (0.1, 1.0), "N": (50, 50)}, [(20, 45), (1, 10)], 8.0),
    "SIS_Periodic": ({"gamma": (0.1, 1.0), "beta0": (0.3, 1.5), "delta": (0.1, 0.6), "period": (2, 10), "N": (50, 50)},
                     [(20, 45), (1, 10)], 8.0),
    "SIR": ({"beta": (0.2, 1.5), "gamma": (0.1, 1.0), "N": (60, 60)}, [(30, 50), (1, 10), (0, 5)], 8.0),
    "SEIR": ({"beta": (0.2, 1.5), "alpha": (0.1, 1.0), "gamma": (0.1, 1.0), "N": (60, 60)},
             [(30, 50), (1, 5), (1, 5), (0, 5)], 8.0),
    "SIR_Birth_Death": ({"beta": (0.2, 1.5), "gamma": (0.1, 1.0), "mu": (0.01, 0.2)}, [(30, 50), (1, 10), (0, 5), (60, 60)], 6.0),
    "SEIR_Birth_Death": ({"beta": (0.2, 1.5), "alpha": (0.1, 1.0), "gamma": (0.1, 1.0), "mu": (0.01, 0.2)},
                         [(30, 50), (1, 5), (1, 5), (0, 5), (60, 60)], 6.0),
    "SEIR_Birth_Death_Periodic": ({"beta0": (0.3, 1.5), "delta": (0.1, 0.6), "period": (2, 10), "alpha": (0.1, 1.0),
                                   "gamma": (0.1, 1.0), "mu": (0.01, 0.2)}, [(30, 50), (1, 5), (1, 5), (0, 5), (60, 60)], 6.0),
    "Lotka_Volterra": ({"alpha": (0.3, 1.2), "beta": (0.02, 0.2), "gamma": (0.3, 1.2), "delta": (0.02, 0.2)}, [(2, 15), (2, 15)], 5.0),
    "FitzHugh": ({"a": (0.1, 0.4), "b": (0.1, 0.4), "c": (1.0, 3.0)}, [(-1.5, 1.5), (-1.0, 1.0)], 4.0),
    "SIR_norm": ({"beta": (0.2, 1.5), "gamma": (0.1, 1.0)}, [(0.5, 0.95), (0.01, 0.2), (0.0, 0.1)], 8.0),
    "vanDerPol": ({"mu": (0.1, 2.0)}, [(-2, 2), (-2, 2)], 4.0),
    "Lorenz": ({"beta": (2.0, 3.0), "sigma": (8.0, 11.0), "rho": (15.0, 28.0)}, [(-5, 5), (-5, 5), (5, 20)], 0.5),
    "Robertson": ({}, [(0.8, 1.0), (0.0, 1e-4), (0.0, 0.1)], 0.3),
    # fast periodic forcing over a long horizon with a SPARSE output grid: thousands of internal solver steps between two
    # consecutive outputs (far more than odeint's default mxstep of 500), yet contractive dynamics, so the problem stays
    # well-conditioned and the two references agree
    "SIS_Periodic/long-sparse": ({"gamma": (0.3, 1.0), "beta0": (0.8, 1.5), "delta": (0.2, 0.5), "period": (0.25, 0.6), "N": (50, 50)},
                                 [(20, 45), (1, 10)], 45.0),
}
LONG = "SIS_Periodic/long-sparse"


def _ctor(name):
    from pygom import common_models
    return getattr(common_models, name.split("/")[0])


def strategy(tier):
    @st.composite
    def case(draw):
        src = draw(st.sampled_from(["generated", "generated", "catalogue"]))
        c = {"source": src}
        if src == "generated":
            m = draw(S.ode_model(max_states=4, families=("chain", "epidemic", "bounded")))
            su = draw(S.ode_setup(m, n_times=(1, 12), t_max=6.0))
            c.update(model=m, setup=su)
        else:
            name = draw(st.sampled_from(sorted(CATALOGUE) + [LONG] * 2))
            pbox, xbox, tmax = CATALOGUE[name]
            theta = {k: (S.sig(draw(S.fl(lo, hi, 4)), 4) if lo != hi else lo) for k, (lo, hi) in pbox.items()}
            x0 = [S.sig(draw(S.fl(lo, hi, 4)), 4) if lo != hi else lo for lo, hi in xbox]
            # signed boxes: no vanishing (1e-155) initial values - scipy's explicit integrators fail to pick a first step there
            x0 = [v if abs(v) >= 1e-3 or v == 0 else 0.0 for v in x0]
            n = draw(st.integers(1, 12))
            if name == LONG:
                n = draw(st.integers(1, 3))
                cuts = sorted(set(S.sig(tmax * draw(S.fl(0.45, 1.0, 3)), 5) for _ in range(n)))
                rel = cuts
            elif draw(st.booleans()):
                step = draw(S.fl(0.02, 1.0, 3)) * tmax / max(n, 1)
                rel = [S.sig(step * (i + 1), 6) for i in range(n)]
            else:
                gaps = [draw(st.sampled_from([1e-3, 0.01, 0.1, 0.3, 0.7, 1.0, 2.0])) for _ in range(n)]
                scale = min(1.0, tmax / sum(gaps))
                rel, acc = [], 0.0
                for g in gaps:
                    acc += g * scale
                    rel.append(S.sig(acc, 6))
                rel = sorted(set(rel))
            c.update(name=name, theta=theta, setup={"x0": x0, "t0": draw(st.sampled_from([0.0, 0.0, 2.0])), "grid_rel": rel})
        entry = draw(st.sampled_from(["integrate", "integrate-full", "solve_determ", "integrate2", "integrate2", "funcjac", "funcjac", "funcjac"]))
        c["entry"] = entry
        c["method"] = draw(st.sampled_from(METHODS))
        c["full_output"] = draw(st.booleans())
        c["include_origin"] = draw(st.booleans())
        c["grid_type"] = draw(st.sampled_from(["list", "tuple", "array", "number", "int_array", "int_list", "int_tuple"]))
        chain = src == "generated" and c["model"].get("family") == "chain"
        c["grid_kind"] = draw(st.sampled_from((["forward"] * 3 + ["backward"] * 3 if chain else ["forward"] * 6) + ["from-t0", "repeat"]))
        c["repeat_at"] = draw(st.integers(0, 11))
        if c["grid_type"].startswith("int") and src != "generated" and (CATALOGUE[c["name"]][2] < 2.0 or c["name"] == LONG):
            c["grid_type"] = "list"          # Lorenz / Robertson are only benign on horizons far below one time unit
        if c["grid_type"].startswith("int"):
            # whole-number output times (np.arange / day numbers) with a possibly fractional initial time
            tmax = 6.0 if src == "generated" else CATALOGUE[c["name"]][2]
            c["setup"] = draw(S.integer_grid(c["setup"], max_n=max(1, int(tmax) - 1)))
        c["x0_type"] = draw(st.sampled_from(["list", "list", "array", "int_list", "int_array", "tuple"]))
        if c["x0_type"].startswith("int"):
            if all(v >= 1.5 for v in c["setup"]["x0"]):
                c["setup"] = dict(c["setup"], x0=[float(round(v)) for v in c["setup"]["x0"]])
            else:
                c["x0_type"] = "list"
        if draw(st.booleans()):
            su = c["setup"]
            n2 = draw(st.integers(1, 6))
            last = su["grid_rel"][-1]
            rel2 = sorted(set(S.sig(last * draw(S.fl(0.05, 1.0, 3)), 5) for _ in range(n2)))
            c["second"] = {"entry": draw(st.sampled_from(["integrate", "integrate-full", "solve_determ", "integrate2", "funcjac"])),
                           "method": draw(st.sampled_from(METHODS)), "full_output": draw(st.booleans()),
                           "include_origin": draw(st.booleans()), "grid_type": draw(st.sampled_from(["list", "tuple", "array", "number"])),
                           "x0_type": draw(st.sampled_from(["list", "array", "tuple"])),
                           "grid_kind": draw(st.sampled_from(["forward"] * 5 + ["backward", "from-t0", "repeat"])),
                           "repeat_at": draw(st.integers(0, 11)),
                           "setup": {"x0": [S.sig(v * draw(st.sampled_from([1.0, 0.8, 1.2])) + (0.0 if v else 0.01), 5) for v in su["x0"]],
                                     "t0": su["t0"] + draw(st.sampled_from([0.0, 0.0, 0.5, 1.0])), "grid_rel": rel2}}
            if draw(st.integers(0, 3)) == 0:
                # the SAME output times as the first solve, asked again after the initial time was moved back a little
                back = draw(st.sampled_from([0.25, 0.5, 1.0]))
                c["second"].update(grid_kind="forward", grid_type=c["grid_type"] if not c["grid_type"].startswith("int") and c["grid_type"] != "number" else "list",
                                   same_times_new_t0=True)
                c["second"]["setup"] = dict(c["second"]["setup"], t0=su["t0"] - back, grid_rel=[S.sig(v + back, 9) for v in su["grid_rel"]])
        return c
    return case()


def _build(case):
    from pygom import common_models
    from pygom.model import ode_utils
    if case["source"] == "generated":
        m, su = case["model"], case["setup"]
        model, _ = render.build(m)
        model.parameters = list(su["theta"])
        f = refsolve.ir_rhs(m, su["theta"])
        return model, f
    model = _ctor(case["name"])(dict(case["theta"]) if case["theta"] else None)
    model._SC = ode_utils.compileCode(backend="lambda")
    ref_model = _ctor(case["name"])(dict(case["theta"]) if case["theta"] else None)
    ref_model._SC = ode_utils.compileCode(backend="lambda")

    def f(t, x):
        return np.asarray(ref_model.ode(list(x), float(t)), float)
    return model, f


def _run(case, rec, part, model, f, tag=""):
    from pygom.model import ode_utils
    su = part["setup"]
    x0, t0 = list(su["x0"]), su["t0"]
    times = np.array([t0 + v for v in su["grid_rel"]])
    if part["grid_type"] == "number":
        times = times[-1:]
    if len(times) == 0 or not (np.diff(np.concatenate([[t0], times])) > 0).all():
        raise Inconclusive("degenerate grid")
    # other legitimate shapes of a request: times BEFORE t0 in decreasing order (backward integration), a grid whose first
    # entry is t0 itself (the whole linspace instead of t[1:]), a time asked for twice
    kind = part.get("grid_kind", "forward")
    if part["grid_type"] == "number" or part["grid_type"].startswith("int"):
        kind = "forward"
    if kind in ("from-t0", "repeat") and part["entry"] not in ("integrate", "integrate-full", "solve_determ"):
        # a zero-length step: several scipy.integrate.ode integrators report failure there and PyGOM turns that into a clean
        # IntegrationError - a rejected request, not a wrong answer; only the odeint path accepts such grids
        kind = "forward"
    uniq = times
    if kind == "backward" and abs(t0) > 100:
        # scipy's odeint itself reports "Illegal input detected (internal error)" for decreasing times at |t| ~ 2000 when asked
        # for full output (reproduced without PyGOM), and may then return garbage rows
        kind = "forward"
    if kind == "backward" and not (case["source"] == "generated" and case["model"].get("family") == "chain"):
        # run backwards, non-linear models blow up in finite time; linear chains merely grow
        kind = "forward"
    if kind == "backward":
        times = uniq = np.array([t0 - 0.3 * v for v in su["grid_rel"]][:len(times)])
    elif kind == "from-t0":
        times = np.concatenate([[t0], uniq])
    elif kind == "repeat":
        j = part.get("repeat_at", 0) % len(uniq)
        times = np.concatenate([uniq[:j + 1], uniq[j:]])
    n_s = len(x0)
    entry, method = part["entry"], part["method"]
    key = "C02/%s%s" % (tag, entry)
    odeint_path = entry in ("integrate", "integrate-full", "solve_determ")
    tol = 1e-5 if odeint_path else 1e-6
    ref_u, amp = refsolve.reference_solution(f, x0, t0, uniq, tol)
    if amp > 20:
        raise Inconclusive("ill-conditioned")
    ref = np.array([np.asarray(x0, float) if t == t0 else ref_u[int(np.argmin(np.abs(uniq - t)))] for t in times])
    gt = part["grid_type"]
    if gt.startswith("int") and not np.all(times == np.rint(times)):
        raise Inconclusive("integer grid form on non-integer times")
    itimes = np.rint(times).astype(int)
    garg = {"list": list(times), "tuple": tuple(times), "array": times, "number": float(times[-1]), "int_array": itimes,
            "int_list": [int(v) for v in itimes], "int_tuple": tuple(int(v) for v in itimes)}[gt]
    xt = part.get("x0_type", "list")
    x0_arg = {"list": list(x0), "array": np.array(x0, float), "tuple": tuple(x0), "int_list": [int(v) for v in x0],
              "int_array": np.array([int(v) for v in x0])}[xt] if xt in ("list", "array", "tuple") or all(v == int(v) for v in x0) else list(x0)
    model.initial_values = (x0_arg, t0)
    label_m = "odeint" if odeint_path else str(method)
    if part.get("same_times_new_t0"):
        rec.label("second-call:same-output-times-after-the-initial-time-moved")
    rec.label("entry:" + entry, "method:" + label_m, "grid:" + part["grid_type"], "grid-kind:" + kind, "source:" + case["source"], "x0:" + xt,
              "model:" + (case.get("name") or case["model"]["family"]))
    info = None
    origin = True
    if case.get("name") == LONG and not odeint_path:
        # thousands of steps between two outputs: with the tight tolerances of the scipy.integrate.ode path the BDF method
        # can exhaust the wrapper's explicit step cap (nsteps=10000) and PyGOM then raises a clean IntegrationError - a
        # refused request, not a wrong answer
        _call = call

        def call_long(key, case, fn, *a, **kw):
            try:
                return _call(key, case, fn, *a, **kw)
            except PropertyViolation as e:
                if "raises-IntegrationError" in e.key:
                    rec.label("long-sparse:step-cap-refusal")
                    raise Inconclusive("step cap reached on a long sparse grid (clean IntegrationError)")
                raise
    else:
        call_long = call
    if entry == "integrate":
        out = call(key, case, model.integrate, garg)
    elif entry == "integrate-full":
        out = call(key, case, model.integrate, garg, True)
        try:
            out, info = out
        except Exception:
            raise PropertyViolation(key + "/return", "integrate(full_output=True) did not return (solution, info)", case)
    elif entry == "solve_determ":
        out = call(key, case, model.solve_determ, garg)
    elif entry == "integrate2":
        key = "C02/%sintegrate2/%s" % (tag, method)
        out = call_long(key, case, model.integrate2, garg, part["full_output"], method)
        if part["full_output"]:
            try:
                out, info = out
            except Exception:
                raise PropertyViolation(key + "/return", "integrate2(full_output=True) did not return (solution, info)", case)
    else:
        key = "C02/%sintegrateFuncJac/%s" % (tag, method)
        origin = part["include_origin"]
        out = call_long(key, case, ode_utils.integrateFuncJac, model.ode_T, model.jacobian_T,
                   x0_arg if isinstance(x0_arg, np.ndarray) else np.array(x0_arg), t0, garg,
                   includeOrigin=origin, full_output=part["full_output"], method=method)
        if part["full_output"]:
            try:
                out, info = out
            except Exception:
                raise PropertyViolation(key + "/return", "integrateFuncJac(full_output=True) did not return (solution, info)", case)
    out = np.asarray(out, float)
    want_rows = len(times) + (1 if origin else 0)
    if out.ndim != 2 or out.shape != (want_rows, n_s):
        raise PropertyViolation(key + "/shape", "solution has shape %s, expected (%d, %d) for %d requested times%s" % (
            out.shape, want_rows, n_s, len(times), " plus the origin" if origin else ""), case)
    if origin:
        if not np.array_equal(out[0], np.asarray(x0, float)):
            raise PropertyViolation(key + "/origin", "first row %s is not the initial state %s" % (out[0], x0), case)
        out = out[1:]
    scale = 1 + np.abs(ref).max()
    err = np.abs(out - ref)
    if not np.isfinite(out).all() or err.max() > tol * scale:
        k = int(np.argmax(err.max(axis=1)))
        hint = ""
        if len(times) > 1 and np.abs(out - out[-1]).max() == 0:
            hint = " (all rows are identical)"
        raise PropertyViolation(key + "/value", "row %d (t=%g) is %s, reference solution %s, error %.3g > %.3g%s" % (
            k, times[k], out[k], ref[k], err.max(), tol * scale, hint), case)
    moved = np.abs(ref[-1] - ref[0]).max() if len(times) > 1 else 0.0
    if len(times) >= 3 and moved > 100 * tol * scale:
        sample = {"entry": entry, "method": method, "grid_rel": su["grid_rel"], "x0": x0, "t0": t0,
                  "model": case.get("name") or pretty(case["model"])}
        return sample
    return None




def oracle(case, rec):
    model, f = call("C02/construct", case, _build, case)
    sample = _run(case, rec, case, model, f)
    # a second solve on the SAME model object with another entry point / method / grid / initial condition: nothing the
    # first call left behind (cached solution, integrator name, time vector) may leak into it
    sec = case.get("second")
    sample2 = None
    if sec:
        rec.label("second-call:%s-after-%s" % (sec["entry"], case["entry"]))
        sample2 = _run(case, rec, sec, model, f, tag="second-call/")
    if sample is not None or sample2 is not None:
        rec.mark_nontrivial(case, dict(sample or sample2, second=(sec or {}).get("entry")))


SELFTESTS = [jets.selftest, refsolve.selftest]
