"""C11 - declared state limits are never violated in stochastic simulation."""
import contextlib
import io

import numpy as np
from hypothesis import strategies as st

from pbt import ir, strategies as S, stoch
from pbt.harness import PropertyViolation, Inconclusive
from pbt.util import pretty

ID = "C11"
TITLE = "Declared state limits are never violated in stochastic simulation"
RULE = ("Hypothesis builds bounded-rate event models whose states carry limits drawn per state from {default, (0,None), (lo,None), "
        "(None,hi), (lo,hi), (None,None)} (plus string- and range-declared states, which have the default), magnitudes 1-3, small "
        "populations at or near a bound, algorithm in {exact, adaptive tau, fixed pre_tau incl. deliberately large steps}, epsilon in "
        "[0.01,0.5], NumPy seed; in a third of the tau-leap cases an explicit ODE term drifting towards one of the limits, present at construction or added with add_ode / ode_list= after a first simulation on the same object (the second simulation is checked too). Oracle: every recorded state of every raw path and of gridded output lies within its limits "
        "(default lower limit 0); step-level relation on firstReaction/tauLeap called with the model's own evaluators from a generated "
        "in-limits state: success with x_new in limits and t advanced, or failure with the same x and t. Non-trivial = a rejected step "
        "was observed (the engine's 'Illegal jump' report or a failed step-level call) or a state reached a declared bound; distinct by case hash.")
ASSUMPTIONS = [
    "rates depend only on states that cannot become negative, so propensities stay non-negative (generator construction)",
    "rejected steps inside solve_stochast are observed through the engine's own 'Illegal jump' message (captured stdout)",
    "the all-rates-zero return of the step functions is not a rejected step and is not compared",
]
BUDGET = {"quick": (4, 160), "thorough": (16, 1200)}
TECHNIQUE = "property-based testing (Hypothesis @given over models with per-state limits, algorithms, step sizes and seeds) with a path invariant and a step-level accept/reject relation"
LEVEL_TEXT = ("Exploration over programs, configurations and random streams: the limit invariant is checked on every recorded state; "
              "the accept/reject contract is checked directly on the step functions.")
LEVEL_NOTE = "A rejected step that is not recorded inside _jump has no public trace other than the printed message; nothing is claimed about unobserved internal state."
DESIGN_REF = "DESIGN.md section 3 (C11), section 4 (F12)"


def strategy(tier):
    @st.composite
    def case(draw):
        decl = draw(st.sampled_from(["limits", "limits", "limits", "plain"]))
        if decl == "limits":
            m = draw(S.event_model(limits=True))
        else:
            m = draw(S.event_model(limits=False))
        if decl == "limits" and len(m["state_decl"]) >= 2 and draw(st.integers(0, 3)) == 0:
            # declaration pattern: a state with an open or negative lower limit given as (name, (lo, hi)), FOLLOWED by a state
            # given by its bare name (default limits) that a constant-rate removal can push to its lower limit 0
            first, last = m["state_decl"][0], m["state_decl"][-1]
            users = [] if ("range" in first or "range" in last) else \
                [ev for ev in m["events"] if ir.atoms(ev["rate"], "s") & {first["name"]}]
            # (only when no rate depends on the first state: rates are generated for states that cannot become negative)
            if "range" not in first and "range" not in last and not users:
                first["lims"] = draw(st.sampled_from([[None, None], [None, 30], [-3, 3], [-5, None]]))
                last["lims"] = None
                m["events"] = m["events"] + [{"rate": ir.C(draw(S.fl(0.3, 2.0, 2))), "rate_kind": "const",
                                              "trans": [{"kind": "D", "o": last["name"], "d": None,
                                                         "mag": {"int": draw(st.integers(1, 2))}}]}]
        if decl == "limits" and draw(st.integers(0, 4)) == 0:
            # the same limits far from zero (a ward that holds 100 000 - 100 030 doses, a population capped at 300 000):
            # a bound must be exactly as sharp there as next to zero
            base = draw(st.sampled_from([100000, 300000]))
            shifted = False
            for d in m["state_decl"]:
                if d.get("lims") and (d["lims"][0] is not None or d["lims"][1] is not None):
                    d["lims"] = [None if v is None else v + base for v in d["lims"]]
                    shifted = True
            if shifted:
                m["large_limits"] = base
        su = draw(S.stochastic_setup(m, x_hi=draw(st.sampled_from([3, 8, 40]))))
        if m.get("large_limits") and su["t0"] > 100:
            # populations of 3e5 make steps of 1e-12 time units, which a clock reading 2020 cannot resolve (2020 + 1e-13 == 2020
            # in double precision): such a step "does not advance time" on any tree
            su = dict(su, t0=1.0)
        algo = draw(st.sampled_from(["exact", "tau", "pre_tau", "pre_tau"]))
        drift = None
        if algo != "exact" and draw(st.integers(0, 2)) == 0:
            # an explicit ODE term that pushes a state towards (and, unchecked, across) one of its limits; given either at
            # construction or added with add_ode / ode_list after a first simulation on the same object
            names = ir.state_names(m)
            lims = ir.state_limits(m)
            cands = [(nm, -1) for nm, (lo, hi) in zip(names, lims) if lo is not None] + \
                    [(nm, +1) for nm, (lo, hi) in zip(names, lims) if hi is not None]
            # prefer a state that no event touches (a pure bookkeeping state until the ODE term arrives)
            touched_by_events = {t[k] for ev in m["events"] for t in ev["trans"] for k in ("o", "d") if t[k]}
            idle = [c for c in cands if c[0] not in touched_by_events]
            if idle and draw(st.booleans()):
                cands = idle
            if cands:
                nm, sgn = draw(st.sampled_from(cands))
                # strong enough to reach the limit well inside the horizon
                i_ = names.index(nm)
                lo_, hi_ = lims[i_]
                dist = (su["x0"][i_] - lo_) if sgn < 0 else (hi_ - su["x0"][i_])
                mag = max(draw(st.sampled_from([0.5, 2.0, 8.0])), 2.0 * (dist + 1) / max(su["horizon"], 1e-3))
                drift = {"state": nm, "rate": sgn * S.sig(min(mag, 1e4), 3),
                         "when": draw(st.sampled_from(["construction", "add_ode-after-first-run", "ode_list-after-first-run"]))}
        return {"model": m, "setup": su, "algo": algo, "drift": drift,
                "pre_tau": draw(st.sampled_from([0.05, 0.5, 2.0, 10.0])),
                "epsilon": draw(st.sampled_from([None, 0.01, 0.1, 0.5])),
                "grid_n": draw(st.sampled_from([0, 0, 4, 7])),
                "probe": [draw(st.sampled_from([0, 0, 0, 1, 2, 5])) for _ in ir.state_names(m)]}
    return case()


def _probe_state(lims, offs):
    x = []
    for (lo, hi), o in zip(lims, offs):
        if lo is not None:
            v = lo + o
            if hi is not None:
                v = min(v, hi)
        elif hi is not None:
            v = hi - o
        else:
            v = o - 3
        x.append(v)
    return np.array(x, dtype=float)


def oracle(case, rec):
    from pygom.model.stochastic_simulation import firstReaction, tauLeap
    m, su, algo = case["model"], case["setup"], case["algo"]
    if m.get("large_limits"):
        rec.label("limits:shifted-by-%d" % m["large_limits"])
    lims = ir.state_limits(m)
    n_e = len(m["events"])
    drift = case.get("drift")
    if drift and drift["when"] == "construction":
        m = dict(m, odes=[{"state": drift["state"], "expr": ir.C(drift["rate"])}])
    model, order = stoch.prepare(m, su)
    exact = algo == "exact"
    model.pre_tau = case["pre_tau"] / su.get("clock", 1.0) if algo == "pre_tau" else None
    if case["epsilon"] is not None:
        model._epsilon = case["epsilon"]
    V = stoch.V_int(m, su["theta"], order)
    t_end = su["t0"] + su["horizon"]
    kinds = set()
    for d in m["state_decl"]:
        if "range" in d:
            kinds.add("range")
        elif d.get("lims") is None:
            kinds.add("default")
        else:
            kinds.add("lo" if d["lims"][0] is not None else "nolo")
            kinds.add("hi" if d["lims"][1] is not None else "nohi")
    rec.label("algo:" + algo, *["lims:" + k for k in kinds])
    key = "C11/" + algo
    box = stoch.limit_steps(model, 400000 if exact else 60000)
    buf = io.StringIO()
    try:
        with contextlib.redirect_stdout(buf):
            if case["grid_n"]:
                grid = np.linspace(su["t0"], t_end, case["grid_n"])
                np.random.seed(su["np_seed"])
                Xs, _c, _t = stoch.simulate("C11", key + "/grid", case, model.solve_stochast, grid, 2, exact=exact,
                                            full_output=True, parallel=False)
                rec.label("output:gridded")
            else:
                Xs, _c, _t = stoch.simulate("C11", key, case, stoch.run_raw, model, t_end, 2, exact, su["np_seed"])
                rec.label("output:raw")
    except stoch.StepBudget:
        raise Inconclusive("step budget")
    rejected = buf.getvalue().count("Illegal jump")
    touched = False
    runs = list(Xs)
    if drift:
        rec.label("drift:" + drift["when"])
        if not any(drift["state"] in (t["o"], t["d"]) for ev in m["events"] for t in ev["trans"]):
            rec.label("drift:on-a-state-no-event-touches")
    if drift and drift["when"] != "construction":
        # second simulation on the same object after an ODE term was added
        from pygom import Transition
        tr = Transition(origin=drift["state"], equation=ir.to_str_top(ir.C(drift["rate"])), transition_type="ODE")
        if drift["when"].startswith("add_ode"):
            model.add_ode(tr)
        else:
            model.ode_list = [tr]
        try:
            with contextlib.redirect_stdout(buf):
                X2, _c2, _t2 = stoch.simulate("C11", key + "/after-add_ode", case, stoch.run_raw, model, t_end, 2, exact,
                                              (su["np_seed"] + 1) % (2 ** 32))
        except stoch.StepBudget:
            raise Inconclusive("step budget")
        runs += list(X2)
    for X in runs:
        X = np.asarray(X, float)
        for i, (lo, hi) in enumerate(lims):
            col = X[:, i]
            if lo is not None and (col < lo).any():
                k = int(np.argmax(col < lo))
                raise PropertyViolation(key + "/below-lower", "state %s = %r at record %d is below its lower limit %r" % (
                    ir.state_names(m)[i], col[k], k, lo), case)
            if hi is not None and (col > hi).any():
                k = int(np.argmax(col > hi))
                raise PropertyViolation(key + "/above-upper", "state %s = %r at record %d is above its upper limit %r" % (
                    ir.state_names(m)[i], col[k], k, hi), case)
            if (lo is not None and (col[1:] == lo).any()) or (hi is not None and (col[1:] == hi).any()):
                touched = True
    # step-level contract
    x = _probe_state(lims, case["probe"])
    t = float(su["t0"])
    rates = stoch.rates_at(m, x, t, su["theta"], order)
    step_rejected = False
    if (rates > 0).any():
        model.get_ReactantMatrix()
        np.random.seed(su["np_seed"])
        with contextlib.redirect_stdout(io.StringIO()):
            try:
                if exact:
                    out = firstReaction(x.copy(), model._state_lims, t, model.vMat, model.eventRateVector)
                else:
                    out = tauLeap(x.copy(), model._state_lims, t, model.vMat, model._lambdaMat, model.eventRateVector,
                                  model.transitionMean, model.transitionVar, model.pureOdeVector,
                                  epsilon=model._epsilon, pre_tau=model.pre_tau)
            except ValueError as e:
                if "lam" in str(e):
                    raise Inconclusive("C04 finding (simulation raised)")
                raise PropertyViolation(key + "/step-raises", "step function raised %r" % (e,), case)
            except Exception as e:
                raise PropertyViolation(key + "/step-raises", "step function raised %r" % (e,), case)
        if len(out) != 5:
            raise PropertyViolation(key + "/step-return", "step function returned %d values" % len(out), case)
        t_new, _dt, x_new, _jumps, ok = out
        x_new = np.asarray(x_new, float)
        if ok:
            if not stoch.within(x_new, lims):
                raise PropertyViolation(key + "/step-accepts-illegal", "step from %s accepted new state %s outside limits %s" % (x, x_new, lims), case)
            if not t_new > t:
                raise PropertyViolation(key + "/step-time", "accepted step did not advance time (%r -> %r)" % (t, t_new), case)
        else:
            step_rejected = True
            if not np.array_equal(x_new, x) or t_new != t:
                raise PropertyViolation(key + "/rejected-step-changes", "rejected step returned x=%s t=%r, expected unchanged x=%s t=%r" % (
                    x_new, t_new, x, t), case)
    if rejected:
        rec.label("observed:rejected-step")
    if touched:
        rec.label("observed:bound-reached")
    if rejected or step_rejected or touched:
        rec.mark_nontrivial(case, {"model": pretty(m), "setup": su, "algo": algo, "pre_tau": case["pre_tau"]})
