"""C05 - exact stochastic simulation samples the continuous-time Markov chain's law."""
import contextlib
import io
import math

import numpy as np
from hypothesis import strategies as st
from scipy.linalg import expm

from pbt import ir, strategies as S, stoch, stats
from pbt.harness import PropertyViolation, Inconclusive

ID = "C05"
TITLE = "Exact stochastic simulation samples the continuous-time Markov chain's law"
RULE = ("Three generated families with closed-form laws: (i) linear progression chains of 2-4 compartments with per-capita rates in "
        "[0.1,5], N in [5,50] individuals and horizon with k*T in [0.2,3] (or, declared with two-sided limits (0,N), N in [2,8] observed late so that the absorbing compartment fills up to its limit): occupancy at T summed over M runs is Binomial(N*M, p_j(T)), read either from the raw path of a scalar-horizon run or from the gridded output solve_stochast(grid, M, exact=True) at every requested time incl. the last one, "
        "with p(T) from the matrix exponential of the chain generator; (ii) SIR with N in [8,30], R0 in [0.5,4] run to extinction: "
        "final-size pmf from dynamic programming over the embedded jump chain, one exact binomial test per size class (classes with "
        "expected count < 20 pooled); (iv) immigration with total catastrophes (a magnitude that is the current value of the state): X(T) against the closed-form mixture of Poisson laws; (iii) 2-4 competing constant/linear events from a fixed state, M independent first steps of the "
        "first-reaction step function: sum of waiting times ~ Gamma(M, total rate), counts below the theoretical 25/50/75% quantiles and "
        "event-identity counts ~ Binomial. Every test uses an exact acceptance region at alpha = 1e-8/20000 (<= 20000 tests per run). "
        "Non-trivial = every tested category has expected count >= 20; distinct by parameter tuple.")
ASSUMPTIONS = [
    "Bonferroni budget: at most 20000 exact tests per run of the check, each at alpha=5e-13, so a false alarm has probability < 1e-8 per run",
    "quick tier (M=8000) has power only against rate errors above ~8%; the thorough tier (M=40000) reaches ~4%",
    "closed-form laws are computed independently (scipy.linalg.expm, own DP) and never from PyGOM",
]
BUDGET = {"quick": (4, 8), "thorough": (16, 12)}
TECHNIQUE = "property-based testing (Hypothesis @given over rates, sizes, horizons, seeds) with exact binomial/gamma acceptance regions against closed-form CTMC laws"
LEVEL_TEXT = ("Statistical exploration: empirical distributions over thousands of seeded runs are compared with closed-form laws using "
              "exact acceptance regions whose total false-alarm probability per run is below 1e-8.")
LEVEL_NOTE = "Power is limited by the number of runs; small rate errors are only visible in the thorough tier."
DESIGN_REF = "DESIGN.md section 3 (C05)"
CASE_TIMEOUT = 900


def _runs(tier):
    return 8000 if tier == "quick" else 40000


def strategy(tier):
    M = _runs(tier)

    @st.composite
    def case(draw):
        fam = draw(st.sampled_from(["chain", "chain", "sir", "sir", "first-step", "first-step", "catastrophe"]))
        seed = draw(st.integers(0, 2 ** 32 - 1))
        if fam == "chain":
            n = draw(st.integers(2, 4))
            ks = [draw(S.fl(0.1, 5.0, 3)) for _ in range(n - 1)]
            kT = draw(S.fl(0.2, 3.0, 3))
            c = {"family": fam, "k": ks, "N": draw(st.integers(5, 50)), "T": S.sig(kT / max(ks), 4), "M": M // 4,
                 "np_seed": seed, "entry": draw(st.sampled_from(["scalar", "grid"])),
                 # closed population declared with two-sided limits (0, N): the law is the same, and states do reach N
                 "declared_limits": draw(st.booleans())}
            if c["declared_limits"]:
                # small closed population observed late: the absorbing compartment does fill up to the declared upper limit
                c["N"] = draw(st.integers(2, 8))
                c["T"] = S.sig(draw(S.fl(1.5, 4.0, 3)) / min(ks), 4)
            # the same law on a slow clock: rates nine orders of magnitude smaller, horizon correspondingly longer
            clock = draw(st.sampled_from([1.0, 1.0, 1.0, 1e-9]))
            if clock != 1.0:
                c["k"] = [S.sig(v * clock, 4) for v in c["k"]]
                c["T"] = S.sig(c["T"] / clock, 4)
                c["slow_clock"] = True
            if c["entry"] == "grid":
                # the same law read through the gridded output: every requested time, the last one (= horizon) included
                fr = sorted(set(draw(st.lists(st.sampled_from([0.2, 0.35, 0.5, 0.65, 0.8]), min_size=1, max_size=3))))
                c["grid_fractions"] = fr + [1.0]
            return c
        if fam == "catastrophe":
            # immigration at rate lam, total catastrophes (the whole population leaves at once: magnitude = the state) at
            # rate c; closed form: X(T) = x0 + Poisson(lam T) with probability exp(-cT), else Poisson(lam A), A the time
            # since the last catastrophe with density c exp(-c a) on (0,T)
            return {"family": fam, "lam": draw(S.fl(0.5, 4.0, 3)), "c": draw(S.fl(0.2, 1.5, 3)), "x0": draw(st.integers(0, 6)),
                    "T": draw(S.fl(0.8, 4.0, 3)), "M": M // 2, "np_seed": seed}
        if fam == "sir":
            N = draw(st.integers(8, 30))
            gamma = draw(S.fl(0.3, 2.0, 3))
            R0 = draw(S.fl(0.5, 4.0, 3))
            return {"family": fam, "N": N, "I0": draw(st.integers(1, 3)), "beta": S.sig(R0 * gamma, 4), "gamma": gamma,
                    "M": M, "np_seed": seed}
        n = draw(st.integers(2, 4))
        evs = []
        for _ in range(n):
            evs.append({"kind": draw(st.sampled_from(["const", "linear"])), "k": draw(S.fl(0.2, 4.0, 3))})
        return {"family": fam, "events": evs, "x": draw(st.integers(1, 25)), "M": M * 2, "np_seed": seed}
    return case()


def _chain_model(ks):
    n = len(ks) + 1
    states = ["X%d" % (i + 1) for i in range(n)]
    params = ["k%d" % (i + 1) for i in range(n - 1)]
    events = [{"rate": ir.mul(ir.P(params[i]), ir.S(states[i])),
               "trans": [{"kind": "T", "o": states[i], "d": states[i + 1], "mag": {"int": 1}}]} for i in range(n - 1)]
    return {"state_decl": [{"name": s, "lims": None} for s in states], "params": params, "derived": [],
            "events": events, "odes": []}


def _sir_model():
    return {"state_decl": [{"name": s, "lims": None} for s in ("S", "Inf", "R")], "params": ["beta", "gamma", "N"],
            "derived": [],
            "events": [{"rate": ir.div(ir.mul(ir.P("beta"), ir.S("S"), ir.S("Inf")), ir.P("N")),
                        "trans": [{"kind": "T", "o": "S", "d": "Inf", "mag": {"int": 1}}]},
                       {"rate": ir.mul(ir.P("gamma"), ir.S("Inf")),
                        "trans": [{"kind": "T", "o": "Inf", "d": "R", "mag": {"int": 1}}]}],
            "odes": []}


def sir_final_size_pmf(N, I0, beta, gamma):
    """P(total number ever infected beyond the initial ones = z) from the embedded jump chain."""
    S0 = N - I0
    prob = {(S0, I0): 1.0}
    final = np.zeros(S0 + 1)
    for s in range(S0, -1, -1):
        for i in range(N - s, 0, -1) if True else ():
            p = prob.pop((s, i), 0.0)
            if p == 0.0:
                continue
            inf = beta * s * i / N
            rec = gamma * i
            pi = inf / (inf + rec)
            if s > 0 and pi > 0:
                prob[(s - 1, i + 1)] = prob.get((s - 1, i + 1), 0.0) + p * pi
            if i - 1 == 0:
                final[S0 - s] += p * (1 - pi)
            else:
                prob[(s, i - 1)] = prob.get((s, i - 1), 0.0) + p * (1 - pi)
    return final


def _check_count(key, case, what, count, n, p):
    lo, hi = stats.binom_region(n, p)
    if not lo <= count <= hi:
        raise PropertyViolation(key, "%s: observed %d of %d, exact acceptance region [%d, %d] for p=%.6g (alpha=%.1e)" % (
            what, count, n, lo, hi, p, stats.ALPHA), case)


def oracle(case, rec):
    fam = case["family"]
    rec.label("family:" + fam)
    M = case["M"]
    tests = 0
    min_expected = float("inf")
    if fam == "chain":
        ks, N, T = case["k"], case["N"], case["T"]
        n = len(ks) + 1
        m = _chain_model(ks)
        if case.get("declared_limits"):
            for d_ in m["state_decl"]:
                d_["lims"] = [0, N]
            rec.label("chain:declared-limits(0,N)")
        su = {"x0": [N] + [0] * (n - 1), "theta": ks, "t0": 0.0}
        model, order = stoch.prepare(m, su)
        Q = np.zeros((n, n))
        for i, k in enumerate(ks):
            Q[i, i] -= k
            Q[i, i + 1] += k
        rec.label("chain-entry:" + case.get("entry", "scalar"))
        if case.get("entry") == "grid":
            grid = np.array([0.0] + [f * T for f in case["grid_fractions"]])
            Xs, _c, _t = stoch.simulate("C05", "C05/chain-grid", case, stoch.run_raw, model, grid, M, True, case["np_seed"])
            tot = np.zeros((len(grid), n))
            for X in Xs:
                X = np.asarray(X, float)
                if X.shape != (len(grid), n):
                    raise PropertyViolation("C05/chain-grid/shape", "gridded output has shape %s for %d times and %d states" % (
                        X.shape, len(grid), n), case)
                tot += X
            for kk in range(1, len(grid)):
                pk = expm(Q * grid[kk])[0]
                for j in range(n):
                    _check_count("C05/chain-grid/occupancy", case, "gridded occupancy of compartment %d at t=%g (grid point %d of %d)" % (
                        j + 1, grid[kk], kk, len(grid) - 1), int(tot[kk, j]), N * M, float(pk[j]))
                    tests += 1
                    min_expected = min(min_expected, N * M * min(pk[j], 1 - pk[j]))
            p = expm(Q * T)[0]
            occ = tot[-1]
        else:
            Xs, _c, Ts = stoch.simulate("C05", "C05/chain", case, stoch.run_raw, model, T, M, True, case["np_seed"])
            occ = np.zeros(n)
            for X, tt in zip(Xs, Ts):
                idx = int(np.searchsorted(np.asarray(tt, float), T, side="right") - 1)
                occ += np.asarray(X, float)[idx]
            p = expm(Q * T)[0]
            for j in range(n):
                _check_count("C05/chain/occupancy", case, "occupancy of compartment %d at T=%g" % (j + 1, T), int(occ[j]), N * M, float(p[j]))
                tests += 1
                min_expected = min(min_expected, N * M * min(p[j], 1 - p[j]))
    elif fam == "catastrophe":
        from scipy.integrate import quad
        from scipy.stats import poisson
        lam, c, x0c, T = case["lam"], case["c"], case["x0"], case["T"]
        m = {"state_decl": [{"name": "X", "lims": None}], "params": ["lam", "c"], "derived": [], "odes": [],
             "events": [{"rate": ir.P("lam"), "trans": [{"kind": "B", "o": None, "d": "X", "mag": {"int": 1}, "birth_by": "destination"}]},
                        {"rate": ir.P("c"), "trans": [{"kind": "D", "o": "X", "d": None, "mag": {"state": "X"}}]}]}
        su = {"x0": [x0c], "theta": [lam, c], "t0": 0.0}
        model, order = stoch.prepare(m, su)
        Xs, _c, Ts = stoch.simulate("C05", "C05/catastrophe", case, stoch.run_raw, model, T, M, True, case["np_seed"])
        finals = []
        for X, tt in zip(Xs, Ts):
            idx = int(np.searchsorted(np.asarray(tt, float), T, side="right") - 1)
            finals.append(int(round(float(np.asarray(X, float)[idx][0]))))
        finals = np.array(finals)

        def pmf(k):
            none = np.exp(-c * T) * (poisson.pmf(k - x0c, lam * T) if k >= x0c else 0.0)
            some = quad(lambda a: c * np.exp(-c * a) * poisson.pmf(k, lam * a), 0.0, T, epsabs=1e-13, epsrel=1e-12)[0]
            return none + some
        kmax = int(x0c + lam * T + 12 * np.sqrt(lam * T + 1) + 10)
        probs = np.array([pmf(k) for k in range(kmax + 1)])
        if abs(probs.sum() - 1) > 1e-7:
            raise Inconclusive("closed-form pmf does not sum to one")
        pooled_p, pooled_c = 0.0, 0
        for k, pk in enumerate(probs):
            ck = int((finals == k).sum())
            if M * pk >= 20:
                _check_count("C05/catastrophe/population", case, "population %d at T=%g" % (k, T), ck, M, float(pk))
                tests += 1
                min_expected = min(min_expected, M * min(pk, 1 - pk))
            else:
                pooled_p += pk
                pooled_c += ck
        pooled_c += int((finals > kmax).sum())
        if M * pooled_p >= 20:
            _check_count("C05/catastrophe/population", case, "pooled rare population sizes", pooled_c, M, float(pooled_p))
            tests += 1
    elif fam == "sir":
        N, I0, beta, gamma = case["N"], case["I0"], case["beta"], case["gamma"]
        m = _sir_model()
        su = {"x0": [N - I0, I0, 0], "theta": [beta, gamma, float(N)], "t0": 0.0}
        model, order = stoch.prepare(m, su)
        Xs, _c, _t = stoch.simulate("C05", "C05/sir", case, stoch.run_raw, model, 1e9, M, True, case["np_seed"])
        sizes = np.array([int(np.asarray(X)[-1][2]) - 0 - I0 for X in Xs])
        ends = np.array([int(np.asarray(X)[-1][1]) for X in Xs])
        if (ends != 0).any():
            raise PropertyViolation("C05/sir/not-extinct", "a run to an unbounded horizon ended with infectives left", case)
        pmf = sir_final_size_pmf(N, I0, beta, gamma)
        if abs(pmf.sum() - 1) > 1e-9:
            raise Inconclusive("final size pmf does not sum to one")
        pooled_p, pooled_c = 0.0, 0
        for z, pz in enumerate(pmf):
            cz = int((sizes == z).sum())
            if M * pz >= 20:
                _check_count("C05/sir/final-size", case, "final size %d" % z, cz, M, float(pz))
                tests += 1
                min_expected = min(min_expected, M * min(pz, 1 - pz))
            else:
                pooled_p += pz
                pooled_c += cz
        if M * pooled_p >= 20:
            _check_count("C05/sir/final-size", case, "pooled rare final sizes", pooled_c, M, float(pooled_p))
            tests += 1
    else:
        from pygom.model.stochastic_simulation import firstReaction
        evs, x = case["events"], case["x"]
        params = ["k%d" % (i + 1) for i in range(len(evs))]
        events = []
        for i, e in enumerate(evs):
            rate = ir.P(params[i]) if e["kind"] == "const" else ir.mul(ir.P(params[i]), ir.S("X"))
            events.append({"rate": rate, "trans": [{"kind": "B", "o": None, "d": "Y%d" % (i + 1), "mag": {"int": 1}}]})
        m = {"state_decl": [{"name": "X", "lims": None}] + [{"name": "Y%d" % (i + 1), "lims": None} for i in range(len(evs))],
             "params": params, "derived": [], "events": events, "odes": []}
        theta = [e["k"] for e in evs]
        su = {"x0": [x] + [0] * len(evs), "theta": theta, "t0": 0.0}
        model, order = stoch.prepare(m, su)
        rates = np.array([e["k"] * (x if e["kind"] == "linear" else 1) for e in evs])
        total = rates.sum()
        x0 = np.array(su["x0"], float)
        np.random.seed(case["np_seed"])
        waits = np.zeros(M)
        which = np.zeros(len(evs), int)
        with contextlib.redirect_stdout(io.StringIO()):
            for r in range(M):
                try:
                    t_new, dt, x_new, jumps, ok = firstReaction(x0, model._state_lims, 0.0, model.vMat, model.eventRateVector)
                except Exception as e:
                    raise PropertyViolation("C05/first-step/raises", "firstReaction raised %r" % (e,), case)
                if not ok:
                    raise PropertyViolation("C05/first-step/rejected", "a legal first step was rejected", case)
                waits[r] = t_new
                which[int(np.argmax(jumps))] += 1
        lo, hi = stats.gamma_region(M, total)
        tests += 1
        if not lo <= waits.sum() <= hi:
            raise PropertyViolation("C05/first-step/waiting-time-sum", "sum of %d waiting times = %.6g, exact Gamma(%d, %.6g) region [%.6g, %.6g]" % (
                M, waits.sum(), M, total, lo, hi), case)
        for q in (0.25, 0.5, 0.75):
            tq = -math.log(1 - q) / total
            _check_count("C05/first-step/waiting-time-shape", case, "waiting times below the %.0f%% quantile" % (100 * q),
                         int((waits <= tq).sum()), M, q)
            tests += 1
        for i in range(len(evs)):
            _check_count("C05/first-step/event-choice", case, "event %d chosen" % i, int(which[i]), M, float(rates[i] / total))
            tests += 1
            min_expected = min(min_expected, M * min(rates[i] / total, 1 - rates[i] / total))
    rec.extra["statistical_tests"] = rec.extra.get("statistical_tests", 0) + tests
    if min_expected >= 20:
        key = {k: v for k, v in case.items() if k != "np_seed"}
        rec.mark_nontrivial(key, case)


def _selftest_dp():
    # N=2, I0=1: final size 0 with prob gamma/(beta/2+gamma), else 1
    pmf = sir_final_size_pmf(2, 1, 1.0, 1.0)
    assert abs(pmf[0] - 1.0 / 1.5) < 1e-12 and abs(pmf.sum() - 1) < 1e-12, pmf


SELFTESTS = [stats.selftest, _selftest_dp]
