"""Shared helpers for the stochastic-simulation properties (C04, C05, C10, C11, C15, C16)."""
import numpy as np

from pbt import ir, render
from pbt.harness import PropertyViolation, Inconclusive


class StepBudget(BaseException):
    """Raised by the counting wrapper when a simulation evaluates the rate vector more often than allowed."""


def limit_steps(model, budget):
    inner = model.eventRateVector
    box = {"n": 0}

    def counted(state, t):
        box["n"] += 1
        if box["n"] > budget:
            raise StepBudget("rate vector evaluated more than %d times" % budget)
        return inner(state, t)
    model.eventRateVector = counted
    return box


def prepare(m, setup, routes=None, backend="lambda"):
    model, order = render.build(m, routes=routes, backend=backend)
    model.parameters = list(setup["theta"])
    # documented usage passes t[0] of a linspace: a NumPy scalar
    model.initial_values = (x0_argument(setup), np.float64(setup["t0"]))
    return model, order


def x0_argument(setup):
    form = setup.get("x0_form", "int")
    if form == "float":
        return [float(v) for v in setup["x0"]]
    if form == "float_array":
        return np.array(setup["x0"], dtype=np.float64)
    return list(setup["x0"])


def configure(model, algo):
    """algo: {"exact": bool, "pre_tau": float|None, "epsilon": float|None}"""
    model.pre_tau = algo.get("pre_tau")
    if algo.get("epsilon") is not None:
        model._epsilon = algo["epsilon"]


def simulate(prop, key, case, fn, *a, **kw):
    """Call a simulation entry point.  Any exception is a violation of C04 ('the simulation returns');
    the other stochastic properties count a C04-type failure as inconclusive so that one root cause is
    reported once, under the property that states it."""
    from pbt.harness import Inconclusive
    try:
        return fn(*a, **kw)
    except Exception as e:
        msg = str(e)
        if isinstance(e, ValueError) and "lam" in msg:
            k, what = "C04/tau/poisson-mean-overflow", ("adaptive tau-leap proposed a step whose Poisson mean is not "
                                                        "representable (%s)" % msg)
        else:
            k, what = "%s/raises-%s" % (key, type(e).__name__), "%s raised %s: %s" % (
                getattr(fn, "__name__", fn), type(e).__name__, msg[:300])
        if prop == "C04" or not k.startswith("C04/"):
            raise PropertyViolation(k, what, case)
        raise Inconclusive("C04 finding (simulation raised): " + k)


def run_raw(model, horizon_abs, n_iter, exact, np_seed):
    np.random.seed(np_seed)
    return model.solve_stochast(horizon_abs, n_iter, exact=exact, full_output=True, parallel=False)


def V_int(m, theta, order=None):
    names = ir.state_names(m)
    V = ir.reference_float(m, [1.0] * len(names), 0.0, theta, order)["V"]
    Vi = np.rint(V).astype(np.int64)
    assert np.array_equal(Vi, V)
    return Vi


def V_at(m, x, theta, order=None):
    """State-change matrix at state x (magnitudes may be expressions of the states)."""
    V = ir.reference_float(m, [float(v) for v in x], 0.0, theta, order)["V"]
    Vi = np.rint(V).astype(np.int64)
    if not np.array_equal(Vi, V):
        return V
    return Vi


def rates_at(m, x, t, theta, order=None):
    return ir.reference_float(m, [float(v) for v in x], float(t), theta, order)["rates"]


def within(x, lims):
    for v, (lo, hi) in zip(x, lims):
        if lo is not None and v < lo:
            return False
        if hi is not None and v > hi:
            return False
    return True


def check_path(key, case, X, counts, T, x0, t0, V, exact, V_of=None):
    """Invariant over one raw path; returns (n_steps, set of fired event indices).
    V_of(x): state-change matrix at state x, for models whose magnitudes depend on the state (V is then only its shape)."""
    X = np.asarray(X)
    T = np.asarray(T, float)
    n_s, n_e = V.shape
    if X.ndim != 2 or X.shape[1] != n_s:
        raise PropertyViolation(key + "/shape", "states array has shape %s for %d states" % (X.shape, n_s), case)
    steps = X.shape[0] - 1
    counts = np.asarray(counts, float)
    if steps == 0:
        counts = counts.reshape(0, n_e)
    if T.shape != (steps + 1,) or counts.shape != (steps, n_e):
        raise PropertyViolation(key + "/lengths", "len(states)=%d len(times)=%s counts shape %s (events=%d)" % (
            X.shape[0], T.shape, counts.shape, n_e), case)
    if not np.array_equal(X[0], np.asarray(x0, float)) or T[0] != t0:
        raise PropertyViolation(key + "/start", "path starts at x=%s t=%r, expected x0=%s t0=%r" % (X[0], T[0], x0, t0), case)
    if steps and not (np.diff(T) > 0).all():
        k = int(np.argmin(np.diff(T)))
        raise PropertyViolation(key + "/time-order", "times not strictly increasing at step %d: %r -> %r" % (k, T[k], T[k + 1]), case)
    if (counts < 0).any() or (counts != np.floor(counts)).any():
        raise PropertyViolation(key + "/counts", "event counts are not non-negative integers: %s" % counts[:5], case)
    if exact and steps and not ((counts.sum(axis=1) == 1).all() and (counts.max(axis=1) == 1).all()):
        raise PropertyViolation(key + "/exact-one-event", "exact mode reported a step without exactly one event", case)
    if steps:
        # X[k+1]-X[k] == V*counts is an integer identity; float64 stops representing integers exactly at 2**53 (an adaptive
        # tau step on nearly constant propensities can leap 1e15 events at once), so beyond that the case is undecidable here
        if max(float(np.abs(X.astype(float)).max()), float(np.abs(counts).max()) * max(1.0, float(np.abs(V).max()))) >= 2.0 ** 51:
            raise Inconclusive("populations beyond exactly representable integers")
        dX = np.diff(X.astype(float), axis=0)
        if V_of is None:
            want = counts.dot(V.T.astype(float))
        else:
            want = np.array([np.asarray(V_of(X[k]), float).dot(counts[k]) for k in range(steps)])
        if not np.array_equal(dX, want):
            k = int(np.argwhere((dX != want).any(axis=1))[0][0])
            raise PropertyViolation(key + "/state-change", "step %d: state change %s but V*counts = %s (counts %s)" % (
                k, dX[k], want[k], counts[k]), case)
    fired = set(np.nonzero(counts.sum(axis=0))[0].tolist()) if steps else set()
    return steps, fired
