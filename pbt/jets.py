"""Second-order forward-mode automatic differentiation ("jets") over a fixed number of variables.

A jet carries value, gradient and Hessian with respect to n independent variables.  It is the
derivative oracle of C03/C13/C20: it shares no code with sympy or PyGOM.  Self-tested against
complex-step and central differences (see selftest()).
"""
import math

import numpy as np


class Jet:
    """v, g, h: value, gradient, Hessian.  V, G, H: the sum of the absolute values of all terms that were added up to give
    v, g, h (entry by entry) - an a-priori bound on how large the numbers were that cancelled, hence eps*V (G, H) bounds the
    rounding noise the jet itself carries."""
    __slots__ = ("v", "g", "h", "V", "G", "H")

    def __init__(self, v, g, h, V=None, G=None, H=None):
        self.v = v
        self.g = g
        self.h = h
        self.V = abs(v) if V is None else V
        self.G = np.abs(g) if G is None else G
        self.H = np.abs(h) if H is None else H

    @staticmethod
    def const(c, n):
        return Jet(float(c), np.zeros(n), np.zeros((n, n)))

    @staticmethod
    def var(value, i, n):
        g = np.zeros(n)
        g[i] = 1.0
        return Jet(float(value), g, np.zeros((n, n)))

    def _lift(self, o):
        if isinstance(o, Jet):
            return o
        return Jet.const(o, self.g.shape[0])

    def __add__(self, o):
        o = self._lift(o)
        return Jet(self.v + o.v, self.g + o.g, self.h + o.h, self.V + o.V, self.G + o.G, self.H + o.H)

    __radd__ = __add__

    def __neg__(self):
        return Jet(-self.v, -self.g, -self.h, self.V, self.G, self.H)

    def __sub__(self, o):
        return self + (-self._lift(o))

    def __rsub__(self, o):
        return self._lift(o) - self

    def __mul__(self, o):
        o = self._lift(o)
        og = np.outer(self.g, o.g)
        oG = np.outer(self.G, o.G)
        return Jet(self.v * o.v, self.v * o.g + o.v * self.g,
                   self.v * o.h + o.v * self.h + og + og.T,
                   self.V * o.V, self.V * o.G + o.V * self.G, self.V * o.H + o.V * self.H + oG + oG.T)

    __rmul__ = __mul__

    def _unary(self, f0, f1, f2):
        """Compose with a scalar function with value f0, first derivative f1, second f2 at self.v."""
        return Jet(f0, f1 * self.g, f1 * self.h + f2 * np.outer(self.g, self.g),
                   abs(f0), abs(f1) * self.G, abs(f1) * self.H + abs(f2) * np.outer(self.G, self.G))

    def recip(self):
        v = self.v
        return self._unary(1.0 / v, -1.0 / v ** 2, 2.0 / v ** 3)

    def __truediv__(self, o):
        return self * self._lift(o).recip()

    def __rtruediv__(self, o):
        return self._lift(o) * self.recip()

    def exp(self):
        e = math.exp(self.v)
        return self._unary(e, e, e)

    def cos(self):
        return self._unary(math.cos(self.v), -math.sin(self.v), -math.cos(self.v))


class JetOps:
    """Numeric back-end for ir.evaluate producing jets."""

    def __init__(self, n):
        self.n = n

    def const(self, c):
        return Jet.const(c, self.n)

    def add(self, a, b):
        return a + b

    def mul(self, a, b):
        return a * b

    def div(self, a, b):
        return a / b

    def neg(self, a):
        return -a

    def exp(self, a):
        return a.exp()

    def cos(self, a):
        return a.cos()


class FloatOps:
    def const(self, c):
        return float(c)

    def add(self, a, b):
        return a + b

    def mul(self, a, b):
        return a * b

    def div(self, a, b):
        return a / b

    def neg(self, a):
        return -a

    def exp(self, a):
        return math.exp(a)

    def cos(self, a):
        return math.cos(a)


class ComplexOps(FloatOps):
    def const(self, c):
        return complex(c)

    def exp(self, a):
        import cmath
        return cmath.exp(a)

    def cos(self, a):
        import cmath
        return cmath.cos(a)


def selftest():
    """Jets agree with complex-step first derivatives and central second differences."""
    def f(ops, x, y, z):
        c = ops.const
        a = ops.mul(ops.mul(c(1.7), x), ops.exp(ops.neg(ops.mul(c(0.3), y))))
        b = ops.div(ops.mul(x, y), ops.add(c(2.0), z))
        d = ops.mul(ops.add(c(1.0), ops.mul(c(0.4), ops.cos(ops.mul(c(1.3), z)))), x)
        return ops.add(ops.add(a, b), ops.mul(d, ops.div(c(1.0), ops.add(c(1.0), ops.mul(y, y)))))

    pt = [0.9, 1.4, 2.2]
    n = 3
    J = f(JetOps(n), *[Jet.var(v, i, n) for i, v in enumerate(pt)])
    F = lambda p: f(FloatOps(), *p)     # noqa: E731
    assert abs(J.v - F(pt)) < 1e-14
    hstep = 1e-30
    for i in range(n):
        p = [complex(v) for v in pt]
        p[i] += 1j * hstep
        d = f(ComplexOps(), *p).imag / hstep
        assert abs(d - J.g[i]) < 1e-12 * (1 + abs(d)), ("grad", i, d, J.g[i])
    e = 1e-4
    for i in range(n):
        for j in range(n):
            def sh(si, sj):
                p = list(pt)
                p[i] += si * e
                p[j] += sj * e
                return F(p)
            d2 = (sh(1, 1) - sh(1, -1) - sh(-1, 1) + sh(-1, -1)) / (4 * e * e)
            assert abs(d2 - J.h[i, j]) < 1e-5 * (1 + abs(d2)), ("hess", i, j, d2, J.h[i, j])
    assert np.allclose(J.h, J.h.T)
