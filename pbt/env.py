"""Environment bootstrap shared by every check.

* puts <VERIF_REPO>/src first on sys.path (checks always run the working tree);
* makes third-party tooling (hypothesis, jsonschema, atheris) importable, installing it
  offline from the wheelhouse into /verif/.deps when it is missing;
* (re)builds the only compiled artefact of the repository, pygom/model/_tau_leap, from the
  working tree's .pyx whenever its content hash changes.

Any failure here is an infrastructure error (exit code 2), never a property verdict.
"""
import fcntl
import hashlib
import os
import shutil
import subprocess
import sys
import sysconfig
import tempfile

VERIF = os.path.dirname(os.path.dirname(os.path.abspath(__file__)))
REPO = os.environ.get("VERIF_REPO", "/repo")
SRC = os.path.join(REPO, "src")
DEPS = os.path.join(VERIF, ".deps")
BUILD = os.path.join(VERIF, ".build")
WHEELS = "/opt/veriftools/wheels"
PY = sys.executable


class HarnessError(Exception):
    pass


def _scratch_root():
    for cand in ("/var/tmp", tempfile.gettempdir()):
        if os.path.isdir(cand) and os.access(cand, os.W_OK):
            return cand
    return tempfile.gettempdir()


def ensure_deps(extra=()):
    """Make hypothesis / jsonschema (and optional extras) importable."""
    if DEPS not in sys.path:
        sys.path.append(DEPS)          # after site-packages: prefer what the venv already has
    need = []
    for mod, pkg in (("hypothesis", "hypothesis"), ("jsonschema", "jsonschema")) + tuple(extra):
        try:
            __import__(mod)
        except Exception:
            need.append(pkg)
    if not need:
        return
    os.makedirs(DEPS, exist_ok=True)
    lock = open(os.path.join(DEPS, ".lock"), "w")
    fcntl.flock(lock, fcntl.LOCK_EX)
    try:
        still = []
        for pkg in need:
            try:
                __import__(pkg)
            except Exception:
                still.append(pkg)
        if still:
            cmd = [PY, "-m", "pip", "install", "--quiet", "--no-index", "--find-links", WHEELS,
                   "--target", DEPS, "--upgrade"] + still
            r = subprocess.run(cmd, stdout=subprocess.PIPE, stderr=subprocess.STDOUT, text=True)
            if r.returncode != 0:
                raise HarnessError("offline install of %s failed:\n%s" % (still, r.stdout))
            import importlib
            importlib.invalidate_caches()
    finally:
        fcntl.flock(lock, fcntl.LOCK_UN)
        lock.close()
    for mod, pkg in (("hypothesis", "hypothesis"), ("jsonschema", "jsonschema")) + tuple(extra):
        try:
            __import__(mod)
        except Exception as e:      # pragma: no cover
            raise HarnessError("cannot import %s after install: %r" % (mod, e))


def _sha(path):
    h = hashlib.sha256()
    with open(path, "rb") as f:
        h.update(f.read())
    return h.hexdigest()


def _ext_suffix():
    return sysconfig.get_config_var("EXT_SUFFIX")


def ensure_ext():
    """Build pygom.model._tau_leap from the working tree's .pyx if stale or absent."""
    pyx = os.path.join(SRC, "pygom", "model", "_tau_leap.pyx")
    if not os.path.exists(pyx):
        raise HarnessError("missing %s" % pyx)
    so = os.path.join(SRC, "pygom", "model", "_tau_leap" + _ext_suffix())
    os.makedirs(BUILD, exist_ok=True)
    tag = hashlib.sha256(os.path.abspath(REPO).encode()).hexdigest()[:12]
    stamp = os.path.join(BUILD, "tau_leap.%s.sha" % tag)
    want = _sha(pyx) + ":" + sys.version.split()[0]
    lock = open(os.path.join(BUILD, "tau_leap.%s.lock" % tag), "w")
    fcntl.flock(lock, fcntl.LOCK_EX)
    try:
        have = open(stamp).read().strip() if os.path.exists(stamp) else ""
        if have == want and os.path.exists(so):
            return False
        scratch = tempfile.mkdtemp(prefix="pygom_ext_", dir=_scratch_root())
        try:
            pkgdir = os.path.join(scratch, "src", "pygom", "model")
            os.makedirs(pkgdir)
            shutil.copy(pyx, pkgdir)
            with open(os.path.join(scratch, "setup.py"), "w") as f:
                f.write(
                    "from setuptools import setup, Extension\n"
                    "from Cython.Build import cythonize\n"
                    "import numpy\n"
                    "ext=[Extension('pygom.model._tau_leap',['src/pygom/model/_tau_leap.pyx'],"
                    "include_dirs=[numpy.get_include()],extra_compile_args=['-std=c99'])]\n"
                    "setup(name='x',ext_modules=cythonize(ext,compiler_directives="
                    "{'language_level':3,'profile':False}))\n")
            r = subprocess.run([PY, "setup.py", "-q", "build_ext", "--build-lib", "out", "--build-temp", "tmp"], cwd=scratch,
                               stdout=subprocess.PIPE, stderr=subprocess.STDOUT, text=True)
            built = None
            for root, _d, files in os.walk(scratch):
                for fn in files:
                    if fn.startswith("_tau_leap") and fn.endswith(".so"):
                        built = os.path.join(root, fn)
            if r.returncode != 0 or built is None:
                raise HarnessError("building _tau_leap failed:\n" + r.stdout[-4000:])
            tmp = so + ".tmp.%d" % os.getpid()
            shutil.copy(built, tmp)
            os.replace(tmp, so)
            with open(stamp, "w") as f:
                f.write(want)
        finally:
            shutil.rmtree(scratch, ignore_errors=True)
        return True
    finally:
        fcntl.flock(lock, fcntl.LOCK_UN)
        lock.close()


def activate(build=True):
    """Call once at process start, before importing pygom."""
    if SRC in sys.path:
        sys.path.remove(SRC)
    sys.path.insert(0, SRC)
    if VERIF not in sys.path:
        sys.path.insert(1, VERIF)
    os.environ.setdefault("MPLBACKEND", "Agg")
    ensure_deps()
    if build:
        ensure_ext()
    import warnings
    warnings.filterwarnings("ignore")
    import pygom  # noqa: F401
    got = os.path.realpath(os.path.dirname(os.path.dirname(pygom.__file__)))
    if got != os.path.realpath(SRC):
        raise HarnessError("pygom imported from %s, expected %s" % (got, SRC))
    return pygom
