"""Exact statistical acceptance regions with a Bonferroni budget fixed in advance (DESIGN 2.2)."""
import numpy as np
from scipy import stats as ss

RUN_ALPHA = 1e-8          # total false-alarm probability per run of a check
MAX_TESTS = 20000         # fixed upper bound on the number of tests per run
ALPHA = RUN_ALPHA / MAX_TESTS


def binom_region(n, p, alpha=ALPHA):
    """Exact two-sided acceptance region [lo, hi] for a Binomial(n, p) count."""
    if p <= 0:
        return 0, 0
    if p >= 1:
        return n, n
    lo = int(ss.binom.ppf(alpha / 2, n, p))
    hi = int(ss.binom.isf(alpha / 2, n, p))
    # make the region conservative by one unit on each side (ppf/isf rounding at extreme tails)
    return max(0, lo - 1), min(n, hi + 1)


def gamma_region(shape, rate, alpha=ALPHA):
    """Exact two-sided region for a Gamma(shape, rate) variable (sum of exponentials)."""
    lo = ss.gamma.ppf(alpha / 2, a=shape, scale=1.0 / rate)
    hi = ss.gamma.isf(alpha / 2, a=shape, scale=1.0 / rate)
    return float(lo), float(hi)


def selftest():
    lo, hi = binom_region(1000, 0.5, 1e-6)
    assert 400 < lo < 430 and 570 < hi < 600, (lo, hi)
    assert ss.binom.cdf(lo - 1, 1000, 0.5) < 1e-6 and ss.binom.sf(hi, 1000, 0.5) < 1e-6
    glo, ghi = gamma_region(100, 2.0, 1e-6)
    assert 28 < glo < 35 and 70 < ghi < 85, (glo, ghi)
    assert binom_region(10, 0.0) == (0, 0) and binom_region(10, 1.0) == (10, 10)
