"""Evaluate a freshly constructed model in a CLEAN interpreter (python -m pbt.cleaneval < request.json).

Used as an arbiter when, inside a long-running process, a freshly built model disagrees with the independent evaluator of
its definition: if the same construction in a new process agrees with the definition, then something left behind in the
first process (module-level or class-level state of the library) corrupted the build there."""
import json
import os
import subprocess
import sys


def in_clean_process(m, values, names, x, t, timeout=300):
    """Returns {name: nested list} (or {} if the helper failed)."""
    req = json.dumps({"m": m, "values": values, "names": list(names), "x": list(x), "t": t})
    here = os.path.dirname(os.path.dirname(os.path.abspath(__file__)))
    try:
        out = subprocess.run([sys.executable, "-m", "pbt.cleaneval"], input=req.encode(), cwd=here, stdout=subprocess.PIPE,
                             stderr=subprocess.DEVNULL, timeout=timeout, env=dict(os.environ, PYTHONHASHSEED="0"))
        return json.loads(out.stdout.decode().strip().splitlines()[-1])
    except Exception:
        return {}


def main():
    import numpy as np
    from pbt import env
    env.activate()
    from pbt import render
    req = json.loads(sys.stdin.read())
    m = req["m"]
    model, _order = render.build(m)
    if m["params"]:
        model.parameters = {p: req["values"][p] for p in m["params"] if p in req["values"]}
    res = {}
    for nm in req["names"]:
        try:
            res[nm] = np.asarray(getattr(model, nm)(req["x"], req["t"]), float).reshape(-1).tolist()
        except Exception:
            pass
    sys.stdout.write("\n" + json.dumps(res) + "\n")


if __name__ == "__main__":
    main()
