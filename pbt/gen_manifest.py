"""Regenerate /verif/MANIFEST.json from the property modules that exist (python -m pbt.gen_manifest)."""
import importlib
import json
import os
import sys

VERIF = os.path.dirname(os.path.dirname(os.path.abspath(__file__)))
sys.path.insert(0, VERIF)

GUARD = "UKHSA_COLLABORATION_PYGOM_VERIF"


def main():
    props = [json.loads(l) for l in open(os.path.join(VERIF, "properties.jsonl")) if l.strip()]
    checks, na = [], []
    sys.path.insert(0, "/repo/src")
    sys.path.append(os.path.join(VERIF, ".deps"))
    for p in props:
        pid = p["id"]
        path = os.path.join(VERIF, "pbt", "props", pid.lower() + ".py")
        if not os.path.exists(path):
            na.append({"property_id": pid,
                       "reason": "check not built yet in this round (planned: see DESIGN.md section 3); "
                                 "nothing is claimed for it until its check is registered"})
            continue
        meta = {}
        src = open(path).read()
        # read the declarative header without importing pygom
        ns = {}
        for name in ("TECHNIQUE", "LEVEL_TEXT", "LEVEL_NOTE", "DESIGN_REF", "ENGINE"):
            marker = "\n%s = " % name
            if marker in src:
                start = src.index(marker) + 1
                # evaluate the single assignment (string / parenthesised string literal)
                depth, i = 0, start
                buf = ""
                for line in src[start:].split("\n"):
                    buf += line + "\n"
                    depth += line.count("(") - line.count(")")
                    if depth <= 0:
                        break
                exec(buf, ns)
        checks.append({
            "property_id": pid,
            "quick_cmd": "./check %s quick" % pid,
            "thorough_cmd": "./check %s thorough" % pid,
            "evidence_file": "evidence/%s.json" % pid,
            "replay_cmd_template": "./check %s --replay {path}" % pid,
            "engine": ns.get("ENGINE", "hypothesis"),
            "level_claimed": {
                "category": "exploration",
                "text": ns.get("LEVEL_TEXT", "Generated-input search against an independent oracle; held on "
                                             "everything generated, with counts in the evidence file."),
                "design_ref": ns.get("DESIGN_REF", "DESIGN.md section 3, " + pid),
            },
            "level_note": ns.get("LEVEL_NOTE", "Trusts numpy/scipy/mpmath as reference arithmetic and the "
                                               "stated tolerances; establishes no absence."),
            "technique": ns.get("TECHNIQUE", "property-based testing (Hypothesis) against an independent oracle"),
        })
    fuzzed = [c["property_id"] for c in checks
              if "\nFUZZ = " in open(os.path.join(VERIF, "pbt", "props", c["property_id"].lower() + ".py")).read()]
    man = {
        "version": 1,
        "setup_cmd": "./setup.sh",
        "hooks": {
            "guard": GUARD,
            "enable": "no hooks are needed: every observation goes through public API or the module-level "
                      "functions named in the anchors; the guard variable is declared but unused",
            "baseline_off_cmd": "cd /repo && /venv/bin/python -m pytest -ra -q -p no:cacheprovider "
                                "--timeout=900 --continue-on-collection-errors",
            "source_commits": [],
            "add_only": True,
        },
        "engines": [
            {"name": "hypothesis", "path": "pbt/harness.py",
             "serves_properties": [c["property_id"] for c in checks],
             "kind_free_text": "Hypothesis @given campaigns and rule-based state machines, sharded over "
                               "processes by derived seed, with independent reference oracles (pbt/*.py)"},
            {"name": "atheris", "path": "pbt/fuzz_target.py",
             "serves_properties": fuzzed,
             "kind_free_text": "coverage-guided fuzzing (atheris/libFuzzer, pygom.* instrumented) of the same strategies "
                               "through Hypothesis' fuzz_one_input, the property's oracle inside the target; runs as "
                               "subprocesses of the check in both tiers, empty and seeded corpus"},
        ],
        "checks": checks,
        "not_applicable": na,
        "notes": "All checks: ./check <ID> quick|thorough|--replay <file>; VERIF_SEED selects the Hypothesis "
                 "seed (shard i uses seed*1000+i); exit 0 held / 1 VIOLATION / 2 harness error. "
                 "known_findings.json lists repaired (fixed:) and open findings.",
    }
    with open(os.path.join(VERIF, "MANIFEST.json"), "w") as f:
        json.dump(man, f, indent=1)
    try:
        import jsonschema
        jsonschema.validate(man, json.load(open("/root/.vp/MANIFEST.schema.json")))
        print("MANIFEST.json valid: %d checks, %d not_applicable" % (len(checks), len(na)))
    except ImportError:
        print("MANIFEST.json written (jsonschema unavailable)")


if __name__ == "__main__":
    main()
