"""All compiled evaluators of a SimulateOde and their reference values from the abstract model.

EVALUATORS lists the 11 functions registered through DeterministicOde.add_func / SimulateOde.__init__.
reference_all() returns, for a model IR at a point, the value each of them must have, computed from the
IR by floats / jets (no sympy, no PyGOM), in the layouts asserted by C01 and C03.
"""
import numpy as np

from pbt import ir

EVALUATORS = ["ode", "jacobian", "grad", "diff_jacobian", "grad_jacobian", "vMat", "eventRateVector",
              "pureOdeVector", "transitionJacobian", "transitionMean", "transitionVar"]
EVENT_EVALUATORS = {"vMat", "eventRateVector", "transitionJacobian", "transitionMean", "transitionVar"}


def shapes(n_s, n_p, n_e):
    return {"ode": (n_s,), "jacobian": (n_s, n_s), "grad": (n_s, n_p), "diff_jacobian": (n_s * n_s, n_s),
            "grad_jacobian": (n_s * n_p, n_s), "vMat": (n_s, n_e), "eventRateVector": (n_e,),
            "pureOdeVector": (n_s,), "transitionJacobian": (n_e, n_e), "transitionMean": (n_e,),
            "transitionVar": (n_e,)}


def reference_all(m, x, t, theta, order=None):
    n_s, n_p = len(x), len(theta)
    d = ir.derivatives(m, list(x), float(t), list(theta), order)
    fl = ir.reference_float(m, list(x), float(t), list(theta), order)
    n_e = len(fl["rates"])
    out = {"ode": d["f"], "jacobian": d["J"], "grad": d["G"],
           "diff_jacobian": d["Hxx"].reshape(n_s * n_s, n_s),
           "grad_jacobian": np.transpose(d["Hpx"], (1, 0, 2)).reshape(n_s * n_p, n_s),
           "pureOdeVector": fl["pure"]}
    if n_e:
        F = d["dadx"].dot(d["V"])
        out.update({"vMat": d["V"], "eventRateVector": d["a"], "transitionJacobian": F,
                    "transitionMean": F.dot(d["a"]), "transitionVar": (F ** 2).dot(d["a"])})
    return out
