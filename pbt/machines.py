"""Base class for rule-based state machines (histories).

A property module defines a *World*: a plain class with apply(op) that executes one JSON-able operation against the
code under test and its own mirror/model and raises PropertyViolation when the oracle fails.  The Hypothesis machine
only *draws* operations; every executed operation is logged, the log {"ops": [...]} is the case, and replay() re-applies
the log to a fresh World with a plain loop (no Hypothesis involved).
"""
from hypothesis.stateful import RuleBasedStateMachine

from pbt.harness import (PropertyViolation, Inconclusive, CaseTimeout, case_hash, quiet, safety_net)


class Base(RuleBasedStateMachine):
    rec = None          # Recorder, set by the factory
    ctl = None          # ShrinkControl (+ .known), set by the factory
    WORLD = None
    CASE_TIMEOUT = 120

    def __init__(self):
        super().__init__()
        self.log = []
        self.world = None
        self.dead = False
        c = self.ctl
        self.counting = c.key is None
        if c.key is not None:
            c.calls_after += 1
            if c.calls_after > c.cap:
                # shrink budget used up: remaining runs are no-ops (ctl.best is reported).  Rules stay *enabled* on a dead
                # machine (they return at once), otherwise Hypothesis reports "no available rule" as an invalid definition.
                self.dead = True

    def alive(self):
        return not self.dead

    def do(self, op):
        """Execute one operation; returns False when the history has ended (known finding, inconclusive, budget)."""
        if self.dead:
            return False
        if self.world is None:
            self.world = self.WORLD(self.rec)
            if self.counting:
                self.rec.evaluations += 1
        self.log.append(op)
        try:
            with quiet(), safety_net(self.CASE_TIMEOUT):
                self.world.apply(op)
        except CaseTimeout:
            self.rec.inconclusive["safety-net timeout"] += 1
            self.dead = True
        except Inconclusive as e:
            self.rec.inconclusive[str(e).split(":")[0][:60]] += 1
            self.dead = True
        except PropertyViolation as v:
            case = {"ops": list(self.log)}
            v.case = case
            self.dead = True
            if v.key in getattr(self.ctl, "known", {}):
                if self.counting:
                    self.rec.known[v.key] += 1
                return False
            if self.ctl.on_failure(case_hash(case), v, case):
                self.rec.frozen = True
                raise
        return not self.dead

    def teardown(self):
        if self.world is not None and self.counting:
            n = len(self.log)
            self.rec.label("history-length:%s" % ("1-3" if n <= 3 else "4-8" if n <= 8 else "9+"))
        if self.world is not None and not self.dead and hasattr(self.world, "final_op"):
            op = self.world.final_op()
            if op is not None:
                self.do(op)


def replay_ops(world_cls, case, rec):
    w = world_cls(rec)
    for op in case["ops"]:
        w.apply(op)
