"""Abstract model description (IR) and its PyGOM-independent numeric semantics.

Expr (JSON-able nested lists):
    ["c", number] | ["pi"] | ["p", name] | ["s", name] | ["t"] | ["d", name]
    ["+", a, b] | ["*", a, b] | ["/", a, b] | ["neg", a] | ["exp", a] | ["cos", a]

Model (dict):
    state_decl : list of {"name": str, "lims": [lo, hi] | null}  or {"range": "y1:4", "names": [...]}
    state_style: "list" | "space" | "comma" | "tuples"
    params     : [name]            param_style: "list" | "space" | "comma"
    derived    : [{"name": str, "expr": Expr}]      (may refer to earlier derived parameters and to t)
    events     : [{"rate": Expr, "trans": [{"kind": "T"|"B"|"D", "o": str|null, "d": str|null,
                                            "mag": {"int": n} | {"dec": x} | {"par": name} | {"der": name},
                                            "birth_by": "origin"|"destination"}]}]
    odes       : [{"state": str, "expr": Expr}]
"""
import math

import numpy as np

from pbt.jets import FloatOps, Jet, JetOps


# ------------------------------------------------------------------ expression constructors
def C(x):
    return ["c", x]


def P(name):
    return ["p", name]


def S(name):
    return ["s", name]


T = ["t"]
PI = ["pi"]


def D(name):
    return ["d", name]


def absdiff(a, b):
    """|a - b| written the way a user can write it for PyGOM without Abs (whose second derivative is a DiracDelta that
    cannot be compiled): Piecewise((a - b, a - b >= 0), (b - a, True))."""
    return ["absdiff", a, b]


def add(a, b):
    return ["+", a, b]


def mul(*xs):
    out = xs[0]
    for x in xs[1:]:
        out = ["*", out, x]
    return out


def div(a, b):
    return ["/", a, b]


def neg(a):
    return ["neg", a]


def exp(a):
    return ["exp", a]


def cos(a):
    return ["cos", a]


def num_str(x):
    if isinstance(x, bool):
        raise TypeError
    if isinstance(x, int) or (isinstance(x, float) and x == int(x) and abs(x) < 1e6):
        return str(int(x))
    return repr(float(x))


# How a state is spelt in equation strings: by name (default) or, for states declared through a range such as 'y1:4', in the
# bracket spelling y[0], y[1], ... of the vector the range registers (used by the docs' Robertson example).  Set by render.build.
STATE_ALIAS = {}


def to_str(e):
    """Fully parenthesised string accepted by PyGOM's equation parser."""
    k = e[0]
    if k == "s" and e[1] in STATE_ALIAS:
        return STATE_ALIAS[e[1]]
    if k == "c":
        s = num_str(e[1])
        return "(%s)" % s if s.startswith("-") else s
    if k == "pi":
        return "pi"
    if k in ("p", "s", "d"):
        return e[1]
    if k == "t":
        return "t"
    if k == "+":
        return "(%s + %s)" % (to_str(e[1]), to_str(e[2]))
    if k == "*":
        return "(%s*%s)" % (to_str(e[1]), to_str(e[2]))
    if k == "/":
        return "(%s/%s)" % (to_str(e[1]), to_str(e[2]))
    if k == "neg":
        return "(-%s)" % to_str(e[1])
    if k == "exp":
        return "exp(%s)" % to_str(e[1])
    if k == "cos":
        return "cos(%s)" % to_str(e[1])
    if k == "absdiff":
        a, b = to_str(e[1]), to_str(e[2])
        return "Piecewise((%s - %s, %s - %s >= 0), (%s - %s, True))" % (a, b, a, b, b, a)
    raise ValueError(e)


def to_str_top(e):
    """Like to_str but without the outermost parentheses, the way a user writes 'beta*S*I + eps*S'."""
    s = to_str(e)
    if e[0] in ("+", "*", "/") and s.startswith("(") and s.endswith(")"):
        return s[1:-1]
    return s


def atoms(e, kind, acc=None):
    acc = set() if acc is None else acc
    if e[0] == kind:
        acc.add(e[1] if len(e) > 1 else "t")
    for sub in e[1:]:
        if isinstance(sub, list):
            atoms(sub, kind, acc)
    return acc


def evaluate(e, env, ops):
    """env: {"s": {name: v}, "p": {name: v}, "t": v, "d": {name: Expr}}; values typed for `ops`."""
    k = e[0]
    if k == "c":
        return ops.const(e[1])
    if k == "pi":
        return ops.const(math.pi)
    if k == "p":
        if e[1] in env.get("shadow", ()):
            # a derived parameter was defined under the name of this parameter: every occurrence of the name means the
            # derived expression from then on
            return evaluate(env["d"][e[1]], env, ops)
        return env["p"][e[1]]
    if k == "s":
        return env["s"][e[1]]
    if k == "t":
        return env["t"]
    if k == "d":
        return evaluate(env["d"][e[1]], env, ops)
    if k == "+":
        return ops.add(evaluate(e[1], env, ops), evaluate(e[2], env, ops))
    if k == "*":
        return ops.mul(evaluate(e[1], env, ops), evaluate(e[2], env, ops))
    if k == "/":
        return ops.div(evaluate(e[1], env, ops), evaluate(e[2], env, ops))
    if k == "neg":
        return ops.neg(evaluate(e[1], env, ops))
    if k == "exp":
        return ops.exp(evaluate(e[1], env, ops))
    if k == "cos":
        return ops.cos(evaluate(e[1], env, ops))
    if k == "absdiff":
        d = ops.add(evaluate(e[1], env, ops), ops.neg(evaluate(e[2], env, ops)))
        v = getattr(d, "v", d)
        return d if (v.real if isinstance(v, complex) else v) >= 0 else ops.neg(d)
    raise ValueError(e)


# ------------------------------------------------------------------ model helpers
def state_names(m):
    out = []
    for d in m["state_decl"]:
        if "range" in d:
            out.extend(d["names"])
        else:
            out.append(d["name"])
    return out


def state_limits(m):
    """Limits the *property* speaks about: one entry per state, default lower limit 0."""
    out = []
    for d in m["state_decl"]:
        if "range" in d:
            lims = d.get("lims")        # a range-style name may carry one limits tuple that applies to every expanded state
            out.extend([(0, None) if lims is None else (lims[0], lims[1])] * len(d["names"]))
        else:
            lims = d.get("lims")
            out.append((0, None) if lims is None else (lims[0], lims[1]))
    return out


def mag_expr(mag):
    if "int" in mag:
        return C(int(mag["int"]))
    if "dec" in mag:
        return C(float(mag["dec"]))
    if "par" in mag:
        return P(mag["par"])
    if "der" in mag:
        return D(mag["der"])
    if "sum" in mag:                      # [parameter name, integer]  ->  'name+c'
        return add(P(mag["sum"][0]), C(int(mag["sum"][1])))
    if "state" in mag:                    # the current value of a state ('everything leaves at once')
        return S(mag["state"])
    raise ValueError(mag)


def mag_str(mag):
    if "int" in mag:
        return str(int(mag["int"]))
    if "dec" in mag:
        return repr(float(mag["dec"]))
    if "par" in mag:
        return mag["par"]
    if "der" in mag:
        return mag["der"]
    if "sum" in mag:
        return "%s+%d" % (mag["sum"][0], int(mag["sum"][1]))
    if "state" in mag:
        return mag["state"]
    raise ValueError(mag)


def make_env(m, x, t, theta, ops, wrap=None):
    names = state_names(m)
    wrap = wrap or (lambda v, i: ops.const(v))
    n_s = len(names)
    env = {"s": {n: wrap(x[i], i) for i, n in enumerate(names)},
           "t": wrap(t, n_s),
           "p": {n: wrap(theta[i], n_s + 1 + i) for i, n in enumerate(m["params"])},
           "d": {d["name"]: d["expr"] for d in m.get("derived", [])}}
    env["shadow"] = {d["name"] for d in m.get("derived", [])} & set(m["params"])
    return env


def reference(m, x, t, theta, order=None, ops=None, wrap=None):
    """Reference rates, state-change matrix, pure-ODE vector and RHS from the IR.

    order: model order of events (list of IR event indices); default IR order.
    Returns dict with rates[nE], V[nS][nE], pure[nS], f[nS] (typed by ops) and reactant (0/1 ints).
    """
    ops = ops or FloatOps()
    env = make_env(m, x, t, theta, ops, wrap)
    names = state_names(m)
    idx = {n: i for i, n in enumerate(names)}
    events = m.get("events", [])
    order = list(range(len(events))) if order is None else order
    n_s, n_e = len(names), len(order)
    zero = ops.const(0.0)
    rates = []
    V = [[zero for _ in range(n_e)] for _ in range(n_s)]
    react = np.zeros((n_s, n_e), int)
    for col, ei in enumerate(order):
        ev = events[ei]
        rates.append(evaluate(ev["rate"], env, ops))
        for tr in ev["trans"]:
            mg = evaluate(mag_expr(tr["mag"]), env, ops)
            if tr["kind"] in ("T", "D"):
                i = idx[tr["o"]]
                V[i][col] = ops.add(V[i][col], ops.neg(mg))
                react[i, col] = 1
            if tr["kind"] in ("T", "B"):
                i = idx[tr["d"]]
                V[i][col] = ops.add(V[i][col], mg)
                react[i, col] = 1
    pure = [zero for _ in range(n_s)]
    for o in m.get("odes", []):
        i = idx[o["state"]]
        pure[i] = ops.add(pure[i], evaluate(o["expr"], env, ops))
    f = []
    for i in range(n_s):
        acc = pure[i]
        for col in range(n_e):
            acc = ops.add(acc, ops.mul(V[i][col], rates[col]))
        f.append(acc)
    return dict(rates=rates, V=V, pure=pure, f=f, reactant=react)


def reference_float(m, x, t, theta, order=None):
    r = reference(m, x, t, theta, order)
    n_s = len(state_names(m))
    n_e = len(r["rates"])
    return dict(rates=np.array(r["rates"], float).reshape(n_e),
                V=np.array(r["V"], float).reshape(n_s, n_e),
                pure=np.array(r["pure"], float).reshape(n_s),
                f=np.array(r["f"], float).reshape(n_s),
                reactant=r["reactant"])


def reference_jets(m, x, t, theta, order=None):
    """f, rates and V entries as jets over z = (x_1..x_nS, t, theta_1..theta_nP)."""
    n = len(x) + 1 + len(theta)
    ops = JetOps(n)
    return reference(m, x, t, theta, order, ops=ops, wrap=lambda v, i: Jet.var(v, i, n))


def derivatives(m, x, t, theta, order=None):
    """Exact derivative arrays of the RHS from jets.

    J[i,j]=df_i/dx_j, G[i,k]=df_i/dtheta_k, Hxx[i,j,k]=d2f_i/dx_j dx_k, Hpx[i,k,j]=d2f_i/dtheta_k dx_j,
    Hpp[i,k,l]=d2 f_i/dtheta_k dtheta_l, plus rate jets (a, da/dx) and V values.
    """
    n_s, n_p = len(x), len(theta)
    r = reference_jets(m, x, t, theta, order)
    ps = slice(n_s + 1, n_s + 1 + n_p)
    xs = slice(0, n_s)
    f = np.array([j.v for j in r["f"]])
    J = np.array([j.g[xs] for j in r["f"]]).reshape(n_s, n_s)
    G = np.array([j.g[ps] for j in r["f"]]).reshape(n_s, n_p)
    Hxx = np.array([j.h[xs, xs] for j in r["f"]]).reshape(n_s, n_s, n_s)
    Hpx = np.array([j.h[ps, xs] for j in r["f"]]).reshape(n_s, n_p, n_s)
    Hpp = np.array([j.h[ps, ps] for j in r["f"]]).reshape(n_s, n_p, n_p)
    n_e = len(r["rates"])
    a = np.array([j.v for j in r["rates"]]).reshape(n_e)
    dadx = np.array([j.g[xs] for j in r["rates"]]).reshape(n_e, n_s)
    V = np.array([[c.v for c in row] for row in r["V"]]).reshape(n_s, n_e)
    # entry by entry: the sum of the absolute values of the terms added up into f, its first and its second derivatives
    # (propagated by the jets); the float64 reference carries rounding noise of a few eps times these
    fV = np.array([j.V for j in r["f"]])
    JM = np.array([j.G[xs] for j in r["f"]]).reshape(n_s, n_s)
    GM = np.array([j.G[ps] for j in r["f"]]).reshape(n_s, n_p)
    HxxM = np.array([j.H[xs, xs] for j in r["f"]]).reshape(n_s, n_s, n_s)
    HpxM = np.array([j.H[ps, xs] for j in r["f"]]).reshape(n_s, n_p, n_s)
    mag0 = float(fV.max()) if fV.size else 0.0
    mag1 = float(max(JM.max() if JM.size else 0.0, GM.max() if GM.size else 0.0))
    mag2 = float(max(HxxM.max() if HxxM.size else 0.0, HpxM.max() if HpxM.size else 0.0))
    return dict(f=f, J=J, G=G, Hxx=Hxx, Hpx=Hpx, Hpp=Hpp, a=a, dadx=dadx, V=V,
                mag0=mag0, mag1=mag1, mag2=mag2, fM=fV, JM=JM, GM=GM, HxxM=HxxM, HpxM=HpxM)


def term_scale(m, x, t, theta):
    """Size of the terms the DEFINITION adds up into the right-hand side: |rate| x |magnitude| for both ends of every
    transition, plus the explicit ODE terms.  The float reference (and the model's own float evaluation) carries rounding noise
    of a few eps times this, also where the net contribution cancels (magnitudes p+1 and p of opposite sign, say)."""
    fo = FloatOps()
    env = make_env(m, x, t, theta, fo, None)
    total = 0.0
    for ev in m.get("events", []):
        r = abs(float(evaluate(ev["rate"], env, fo)))
        total += 2 * r * sum(abs(float(evaluate(mag_expr(tr["mag"]), env, fo))) for tr in ev["trans"])
    for o in m.get("odes", []):
        total += abs(float(evaluate(o["expr"], env, fo)))
    return total


def rhs_callable(m, theta, order=None):
    """Reference RHS f(t, x) for scipy.integrate.solve_ivp (plain floats)."""
    def f(t, x):
        return reference_float(m, list(x), float(t), theta, order)["f"]
    return f
