"""Start-up self-tests of the oracles (failures are harness errors, exit 2)."""
from pbt.env import HarnessError

_REGISTRY = {}


def register(prop_ids, fn):
    for p in prop_ids:
        _REGISTRY.setdefault(p, []).append(fn)


def run_for(prop_id):
    # import lazily so that a property only pays for the oracles it uses
    import importlib
    mod = importlib.import_module("pbt.props." + prop_id.lower())
    for fn in getattr(mod, "SELFTESTS", []):
        try:
            fn()
        except AssertionError as e:
            raise HarnessError("oracle self-test %s failed: %s" % (fn.__name__, e))
