import os
import sys
import traceback


def main(argv):
    if len(argv) < 2:
        sys.stderr.write("usage: check <ID> quick|thorough | --replay <file>\n")
        return 2
    prop_id = argv[0].upper()
    try:
        from pbt import env
        env.activate(build=True)
        from pbt import harness, selftest
        selftest.run_for(prop_id)
        if argv[1] == "--replay":
            return harness.run_replay(prop_id, argv[2])
        tier = argv[1]
        if tier not in ("quick", "thorough"):
            sys.stderr.write("unknown tier %r\n" % tier)
            return 2
        os.environ["VERIF_TIER"] = tier
        return harness.run_check(prop_id, tier)
    except SystemExit:
        raise
    except BaseException:
        sys.stderr.write("HARNESS ERROR:\n" + traceback.format_exc())
        return 2


if __name__ == "__main__":
    sys.exit(main(sys.argv[1:]))
