"""Turn an IR model into PyGOM objects through a chosen API route.

Routes (per event):
  "event"      Event(rate=..., transition_list=[Transition(...)...])      any event
  "event_eq"   Event(transition_list=[T_with_equation, T...])             rate carried by the first member
  "trans"      Transition carrying its own equation, passed in event=[...] single-transition events
  "legacy"     transition=[...] (T) or birth_death=[...] (B/D)            single-transition, magnitude 1
  "add_event" / "add_trans" / "add_legacy"   the same three, added incrementally after construction

Model order of events (what vMat / eventRateVector columns follow) is returned as `order`.
Fresh Transition/Event objects are created on every call because add_event(Transition) mutates
its argument.
"""
from pbt import ir


def _pg():
    from pygom import SimulateOde, Transition, Event, TransitionType  # noqa: F401
    from pygom.model import ode_utils
    return SimulateOde, Transition, Event, ode_utils


def transition(tr, equation=None, objs=None):
    """objs: name -> ODEVariable for models whose states are declared as ODEVariable objects; a transition may then name a
    state by the object instead of by its ID string (tr["obj_ref"] says which ends do)."""
    _S, Transition, _E, _u = _pg()
    kw = {}
    if equation is not None:
        kw["equation"] = equation
    mag = ir.mag_str(tr["mag"])
    ref = tr.get("obj_ref") or {}

    def nm(end):
        v = tr[end]
        return objs[v] if (objs and ref.get(end) and v in objs) else v
    if tr["kind"] == "T":
        return Transition(origin=nm("o"), destination=nm("d"), transition_type="T", magnitude=mag, **kw)
    if tr["kind"] == "D":
        return Transition(origin=nm("o"), transition_type="D", magnitude=mag, **kw)
    if tr["kind"] == "B":
        if tr.get("birth_by", "destination") == "origin":
            return Transition(origin=nm("d"), transition_type="B", magnitude=mag, **kw)
        return Transition(destination=nm("d"), transition_type="B", magnitude=mag, **kw)
    raise ValueError(tr)


def event_object(ev, route, objs=None):
    _S, _T, Event, _u = _pg()
    rate = ir.to_str_top(ev["rate"])
    if route in ("event", "add_event"):
        return Event(rate=rate, transition_list=[transition(t, objs=objs) for t in ev["trans"]])
    if route == "event_eq":
        ts = [transition(t, rate if i == 0 else None, objs) for i, t in enumerate(ev["trans"])]
        return Event(transition_list=ts)
    if route in ("trans", "add_trans"):
        assert len(ev["trans"]) == 1
        return transition(ev["trans"][0], rate, objs)
    if route in ("legacy", "add_legacy"):
        assert len(ev["trans"]) == 1
        return transition(ev["trans"][0], rate, objs)
    raise ValueError(route)


def odevar_objects(m):
    """States declared as ODEVariable(ID, human readable name) - only for plain declarations (no ranges, no limits)."""
    if m.get("state_style") != "odevar" or any("range" in d or d.get("lims") is not None for d in m["state_decl"]):
        return None
    from pygom import ODEVariable
    return {d["name"]: ODEVariable(d["name"], "compartment " + d["name"]) for d in m["state_decl"]}


def allowed_routes(ev):
    routes = ["event", "add_event", "event_eq"]
    if len(ev["trans"]) == 1:
        routes += ["trans", "add_trans"]
        mg = ev["trans"][0]["mag"]
        if mg.get("int") == 1:
            routes += ["legacy", "add_legacy"]
    return routes


def state_argument(m, objs=None):
    decl = m["state_decl"]
    style = m.get("state_style", "list")
    if objs:
        return [objs[d["name"]] for d in decl]
    names = []
    for d in decl:
        names.append(d["range"] if "range" in d else d["name"])
    if style == "space":
        return " ".join(names)
    if style == "comma":
        return ",".join(names)
    if style == "tuples":
        out = []
        for d in decl:
            if "range" in d:
                out.append(d["range"] if d.get("lims") is None else (d["range"], (d["lims"][0], d["lims"][1])))
            else:
                lims = d.get("lims")
                out.append((d["name"], (0, None) if lims is None else (lims[0], lims[1])))
        return out
    out = []
    for d in decl:
        if "range" in d:
            out.append(d["range"] if d.get("lims") is None else (d["range"], (d["lims"][0], d["lims"][1])))
        elif d.get("lims") is not None:
            out.append((d["name"], (d["lims"][0], d["lims"][1])))
        else:
            out.append(d["name"])
    return out


def param_argument(m):
    style = m.get("param_style", "list")
    if style == "space":
        return " ".join(m["params"])
    if style == "comma":
        return ", ".join(m["params"])
    return list(m["params"])


def _container(items, container, bare_ok):
    """Constructor argument for a non-empty group of objects.  The setters accept a list or tuple for event /
    transition / birth_death, a list for ode, and a single Transition object in place of a list for birth_death and ode."""
    if not items:
        return None
    if container == "bare" and bare_ok and len(items) == 1:
        return items[0]
    if container == "tuple" and bare_ok != "ode":
        return tuple(items)
    return items


def build(m, routes=None, perm=None, backend="lambda", as_ode=False, container="list", pool=None):
    """Return (model, order).  routes: per-event route names (default all "event");
    perm: order in which IR events are handed over (default identity);
    as_ode: ignore events and enter the whole right-hand side as explicit ode= strings;
    container: how the constructor arguments are wrapped ("list", "tuple", or "bare": a lone birth_death / ode
    entry handed over as the object itself, which the setters document as accepted);
    pool: a dict that keeps the Event objects and legacy-list Transitions created for this model, so that a second
    build with the same dict hands the SAME Python objects to another model (bare Transitions passed as events are
    always fresh: add_event documents that it rewrites them)."""
    SimulateOde, Transition, _E, ode_utils = _pg()
    ir.STATE_ALIAS.clear()
    if m.get("bracket_refs"):
        for d in m["state_decl"]:
            if "range" in d:
                base = d["names"][0].rstrip("0123456789")
                for i, nm in enumerate(d["names"]):
                    ir.STATE_ALIAS[nm] = "%s[%d]" % (base, i)
    try:
        return _build(m, routes, perm, backend, as_ode, container, pool)
    finally:
        ir.STATE_ALIAS.clear()


def _build(m, routes, perm, backend, as_ode, container, pool):
    SimulateOde, Transition, _E, ode_utils = _pg()
    events = m.get("events", [])
    n_e = len(events)
    routes = list(routes) if routes is not None else ["event"] * n_e
    perm = list(perm) if perm is not None else list(range(n_e))
    derived = [(d["name"], ir.to_str_top(d["expr"])) for d in m.get("derived", [])] or None
    objs = odevar_objects(m)
    odes = [Transition(origin=o["state"], equation=ir.to_str_top(o["expr"]), transition_type="ODE")
            for o in m.get("odes", [])]
    ctor_event, ctor_trans, ctor_bd, later = [], [], [], []
    o_event, o_trans, o_bd, o_later = [], [], [], []
    if as_ode:
        names = ir.state_names(m)
        terms = {n: [] for n in names}
        for ev in events:
            rate = ir.to_str(ev["rate"])
            for tr in ev["trans"]:
                mg = ir.mag_str(tr["mag"])
                if tr["kind"] in ("T", "D"):
                    terms[tr["o"]].append("-(%s)*(%s)" % (mg, rate))
                if tr["kind"] in ("T", "B"):
                    terms[tr["d"]].append("+(%s)*(%s)" % (mg, rate))
        for n in names:
            if terms[n]:
                odes.append(Transition(origin=n, equation=" ".join(terms[n]).lstrip("+"),
                                       transition_type="ODE"))
    else:
        for ei in perm:
            ev, r = events[ei], routes[ei]
            if pool is not None and r not in ("trans", "add_trans"):
                if (ei, r) not in pool:
                    pool[(ei, r)] = event_object(ev, r, objs)
                obj = pool[(ei, r)]
            else:
                obj = event_object(ev, r, objs)
            if r in ("event", "event_eq", "trans"):
                ctor_event.append(obj)
                o_event.append(ei)
            elif r == "legacy":
                if ev["trans"][0]["kind"] == "T":
                    ctor_trans.append(obj)
                    o_trans.append(ei)
                else:
                    ctor_bd.append(obj)
                    o_bd.append(ei)
            else:
                later.append((r, obj))
                o_later.append(ei)
    if pool is not None:
        # a second model built from the same pool is handed the very same LIST objects as the first one (the user's own
        # `events = [...]` passed to two constructors), not just the same elements
        kept = pool.setdefault("lists", {})
        for nm_ in ("event", "trans", "bd"):
            cur = {"event": ctor_event, "trans": ctor_trans, "bd": ctor_bd}[nm_]
            prev = kept.get(nm_)
            if prev is not None and cur and len(prev) >= len(cur) and all(a is b for a, b in zip(prev, cur)):
                if nm_ == "event":
                    ctor_event = prev
                elif nm_ == "trans":
                    ctor_trans = prev
                else:
                    ctor_bd = prev
            else:
                kept[nm_] = cur
    model = SimulateOde(state_argument(m, objs), param_argument(m), derived_param=derived,
                        event=_container(ctor_event, container, False), transition=_container(ctor_trans, container, False),
                        birth_death=_container(ctor_bd, container, "bd"), ode=_container(odes, container, "ode"))
    if backend == "lambda":
        model._SC = ode_utils.compileCode(backend="lambda")
    for r, obj in later:
        if r in ("add_event", "add_trans"):
            model.add_event(obj)
        elif obj.transition_type.name == "T":
            model.add_transition(obj)
        else:
            model.add_birth_death(obj)
    order = [] if as_ode else o_event + o_trans + o_bd + o_later
    return model, order
