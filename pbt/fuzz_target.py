"""Coverage-guided campaign (atheris / libFuzzer) for one property; run as a subprocess of the runner.

    python -m pbt.fuzz_target <PROP> <runs> <seed> <side-file> <corpus-dir> <mode: empty|seeded>

libFuzzer mutates bytes; Hypothesis' fuzz_one_input decodes them into a structured case of the property's own strategy
(so the fuzzer reaches logic instead of dying in input validation); the property's plain oracle runs inside the target.
Only `pygom.*` is instrumented for coverage.  libFuzzer exits without running atexit handlers, so the target itself
flushes its counters to <side-file> every 200 property executions and when the run budget is reached.
A violation (finding key not listed as open) is written to the side file and raised, which stops libFuzzer.
"""
import json
import os
import sys
import time


def main(argv):
    prop_id, runs, seed, side, corpus, mode = argv[0].upper(), int(argv[1]), int(argv[2]), argv[3], argv[4], argv[5]
    from pbt import env
    env.ensure_deps(extra=(("atheris", "atheris"),))
    if env.SRC in sys.path:
        sys.path.remove(env.SRC)
    sys.path.insert(0, env.SRC)
    import warnings
    warnings.filterwarnings("ignore")
    import atheris
    # pygom must be imported for the FIRST time inside instrument_imports, otherwise its bytecode carries no coverage hooks
    assert "pygom" not in sys.modules
    with atheris.instrument_imports(include=["pygom"], enable_loader_override=False):
        import pygom                                    # noqa: F401
        import pygom.model                              # noqa: F401
        import pygom.loss                               # noqa: F401
    env.activate(build=False)                           # path checks (pygom really comes from VERIF_REPO)
    import importlib
    from hypothesis import given, settings, HealthCheck
    from pbt import harness
    mod = importlib.import_module("pbt.props." + prop_id.lower())
    strat = mod.history_strategy("thorough") if hasattr(mod, "history_strategy") else mod.strategy("thorough")
    known = harness.open_keys(prop_id)
    rec = harness.Recorder()
    state = {"calls": 0, "valid": 0, "failure": None, "t0": time.time()}

    def flush():
        d = rec.dump()
        d.update(libfuzzer_runs=state["calls"], property_executions=state["valid"], failure=state["failure"],
                 wall_s=round(time.time() - state["t0"], 1), mode=mode)
        tmp = side + ".tmp"
        with open(tmp, "w") as f:
            json.dump(d, f, default=harness._default)
        os.replace(tmp, side)

    @settings(database=None, deadline=None, suppress_health_check=list(HealthCheck))
    @given(strat)
    def prop(case):
        state["valid"] += 1
        rec.evaluations += 1
        try:
            with harness.quiet(), harness.safety_net(60):
                mod.oracle(case, rec)
        except harness.CaseTimeout:
            rec.inconclusive["safety-net timeout"] += 1
        except harness.Inconclusive as e:
            rec.inconclusive[str(e).split(":")[0][:60]] += 1
        except harness.PropertyViolation as v:
            if v.key in known:
                rec.known[v.key] += 1
                return
            state["failure"] = dict(key=v.key, message=v.message, case=json.loads(harness.canon(case)))
            flush()
            raise

    fuzz_one = prop.hypothesis.fuzz_one_input

    if mode == "seeded":
        # a few valid encodings as starting corpus: canonical buffers Hypothesis returns for inputs that decode to a whole case
        import random
        rng = random.Random(seed)
        os.makedirs(corpus, exist_ok=True)
        made = 0
        for _ in range(400):
            buf = bytes(rng.getrandbits(8) for _ in range(rng.choice([64, 256, 1024])))
            try:
                out = fuzz_one(buf)
            except harness.PropertyViolation:
                flush()
                sys.exit(77)
            if out:
                with open(os.path.join(corpus, "seed_%03d" % made), "wb") as f:
                    f.write(out)
                made += 1
                if made >= 8:
                    break
        state["seed_corpus_files"] = made

    os.makedirs(corpus, exist_ok=True)

    def target(data):
        state["calls"] += 1
        try:
            fuzz_one(data)
        finally:
            if state["valid"] % 200 == 0 or state["calls"] >= runs:
                flush()

    args = [sys.argv[0], corpus, "-runs=%d" % runs, "-seed=%d" % (seed if seed else 1), "-max_len=4096", "-len_control=0", "-timeout=300",
            "-print_final_stats=0", "-verbosity=0",
            "-artifact_prefix=%s/" % os.path.dirname(os.path.abspath(corpus))]
    atheris.Setup(args, target)
    flush()
    atheris.Fuzz()


if __name__ == "__main__":
    main(sys.argv[1:])
